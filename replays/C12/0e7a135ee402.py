# replay of a CrossHair counterexample on the real byte-level code (no stand-ins)
import sys, os
sys.path[:0] = [os.environ.get("VF_ROOT", "/verif"), "/repo"]
os.environ["VF_MODE"] = "real"
from typing import *
from vf import rt
from props.l12 import *
import math
nan, inf = math.nan, math.inf
C = case('pair_field_record', False)
def h(v, mask, si):
    return ob_container(C, v, mask, si)
res = h(*((0, (0, 1), 1), 1, 1), **{})
ok, detail = res if isinstance(res, tuple) else (res, "")
if ok:
    print("not reproduced on real bytes:", detail)
    sys.exit(0)
print("REPRODUCED container.pair_field_record:", detail)
sys.exit(1)
