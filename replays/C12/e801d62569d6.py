import sys
sys.path[:0]=['/verif','/repo']
from props.l12 import ob_idempotent
ok, d = ob_idempotent('pair_union_record')
print('REPRODUCED' if not ok else 'ok', d)
sys.exit(0 if ok else 1)
