# replay of a CrossHair counterexample on the real byte-level code (no stand-ins)
import sys, os
sys.path[:0] = [os.environ.get("VF_ROOT", "/verif"), "/repo"]
os.environ["VF_MODE"] = "real"
from typing import *
from vf import rt
from props.l12 import *
import math
nan, inf = math.nan, math.inf
C = case('rec_defaults2', False)
def h(v, mask, si):
    return ob_container(C, v, mask, si)
res = h(*(((False, 0), 0, (False, 0)), 1, 11), **{})
ok, detail = res if isinstance(res, tuple) else (res, "")
if ok:
    print("not reproduced on real bytes:", detail)
    sys.exit(0)
print("REPRODUCED container.rec_defaults2:", detail)
sys.exit(1)
