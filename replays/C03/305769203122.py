# replay of a solver-found counterexample: runs the harness in concrete mode
# against the unmodified modules under /repo with real io.BytesIO streams.
import sys, json
sys.path[:0] = ["/verif", "/repo"]
from vf.e1 import replay_main
sys.exit(replay_main('props.prim:h_dec_negative_length', json.loads('{"n": -9223372036854775801, "rl": 3}'), 'negative_length.read_bytes', 'dec.negative_length.read_bytes', 'read_bytes accepted a negative length'))
