# replay of a solver-found counterexample: runs the harness in concrete mode
# against the unmodified modules under /repo with real io.BytesIO streams.
import sys, json
sys.path[:0] = ["/verif", "/repo"]
from vf.e1 import replay_main
sys.exit(replay_main('props.prim:h_rt_long', json.loads('{"n": 6935685271808118784, "rl": 1}'), 'long.value', 'rt.long.value', 'decoded value differs from the written one'))
