# replay of a solver-found counterexample: runs the harness in concrete mode
# against the unmodified modules under /repo with real io.BytesIO streams.
import sys, json
sys.path[:0] = ["/verif", "/repo"]
from vf.e1 import replay_main
sys.exit(replay_main('props.prim:h_rt_int', json.loads('{"n": 201857054, "rl": 0}'), 'int.value', 'rt.int.value', 'decoded value differs from the written one'))
