# replay of a solver-found counterexample: runs the harness in concrete mode
# against the unmodified modules under /repo with real io.BytesIO streams.
import sys, json
sys.path[:0] = ["/verif", "/repo"]
from vf.e1 import replay_main
sys.exit(replay_main('props.prim:h_rt_counts', json.loads('{"n": 201854976, "rl": 1}'), 'union_index.value', 'rt.union_index.value', 'decoded value differs from the written one'))
