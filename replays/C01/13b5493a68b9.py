# replay of a solver-found counterexample: runs the harness in concrete mode
# against the unmodified modules under /repo with real io.BytesIO streams.
import sys, json
sys.path[:0] = ["/verif", "/repo"]
from vf.e1 import replay_main
sys.exit(replay_main('props.prim:h_rt_utf8', json.loads('{"S.clen": 524288, "S.blen": 528384, "rl": 1}'), 'string.value', 'rt.string.value', 'decoded value differs from the written one'))
