# replay of a solver-found counterexample: runs the harness in concrete mode
# against the unmodified modules under /repo with real io.BytesIO streams.
import sys, json
sys.path[:0] = ["/verif", "/repo"]
from vf.e1 import replay_main
sys.exit(replay_main('props.prim:h_rt_bytes', json.loads('{"n": 531456, "rl": 128}'), 'bytes.consumed', 'rt.bytes.consumed', 'decoder did not stop at the end of the value'))
