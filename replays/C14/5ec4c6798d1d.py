# replay of a solver-found counterexample: runs the harness in concrete mode
# against the unmodified modules under /repo with real io.BytesIO streams.
import sys, json
sys.path[:0] = ["/verif", "/repo"]
from vf.e1 import replay_main
sys.exit(replay_main('props.C14:h_init', json.loads('{}'), 'init', 'rabin.init', 'empty input does not map to the seed (little-endian hex)'))
