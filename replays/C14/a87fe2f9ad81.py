# replay of a solver-found counterexample: runs the harness in concrete mode
# against the unmodified modules under /repo with real io.BytesIO streams.
import sys, json
sys.path[:0] = ["/verif", "/repo"]
from vf.e1 import replay_main
sys.exit(replay_main('props.C14:h_end2end', json.loads('{"k": 0}'), 'end2end', 'rabin.end2end', 'fingerprint differs from the specification'))
