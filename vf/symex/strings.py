"""E1 strings.

OStr: an opaque string with separate symbolic character and UTF-8 byte lengths
(enough for the binary codec, where only the length prefix and the payload
bytes matter).  Bounded character-level strings (SStr) live in sstr.py."""
import z3
from .core import SInt, SBool, Unsupported, zint, cur


class OStr:
    _sx_symbolic = True
    _sx_types = (str,)

    def __init__(self, name, clen, blen):
        self.name, self.clen, self.blen = name, clen, blen

    def _sx_len(self):
        return self.clen

    def __len__(self):
        from .core import concretize
        return concretize(self.clen)

    def encode(self, encoding="utf-8", errors="strict"):
        from .models import SBytes, Blob, _used
        _used("str.encode: UTF-8 as an uninterpreted injective map with char_len <= byte_len <= 4*char_len")
        if encoding.lower().replace("_", "-") not in ("utf-8", "utf8"):
            raise Unsupported(f"encode({encoding})")
        return SBytes([Blob(self.name + "#utf8", 0, self.blen)])

    def __eq__(self, o):
        if isinstance(o, OStr):
            if o.name == self.name:
                return SBool(z3.And(zint(self.clen) == zint(o.clen), zint(self.blen) == zint(o.blen)))
            raise Unsupported("comparison of distinct opaque strings")
        if isinstance(o, str):
            if o == "":
                return SBool(zint(self.clen) == 0)
            raise Unsupported("comparison of an opaque string with a literal")
        return False

    def __hash__(self):
        raise Unsupported("hash of opaque string")


class SStr:  # replaced by sstr.SStr when that module is loaded
    _sx_symbolic = True
    _sx_str = True
    _sx_types = (str,)


def decode_bytes(b, encoding, errors):
    from .models import Blob, normalise
    ps = normalise(b.pieces)
    if not any(isinstance(p, Blob) for p in ps) and all(isinstance(p, int) for p in ps):
        return bytes(ps).decode(encoding, errors)
    if len(ps) == 1 and isinstance(ps[0], Blob) and ps[0].src.endswith("#utf8"):
        p = ps[0]
        if z3.is_true(z3.simplify(zint(p.off) == 0)):
            name = p.src[: -len("#utf8")]
            c = cur()
            clen = SInt(z3.BitVec(c.fresh("clen"), 80))
            # the inverse image of the whole encoding is the original string; its
            # character length is the (unique) one whose encoding has p.ln bytes
            orig = getattr(c, "ostr_registry", {}).get(name)
            if orig is not None:
                return OStr(name, z3_ite_len(orig, p.ln), p.ln)
    raise Unsupported("bytes.decode on symbolic bytes")


def z3_ite_len(orig, ln):
    # decoding all blen bytes of enc(S) gives S (char length clen); a proper
    # prefix is handled as unsupported by the caller
    if z3.is_true(z3.simplify(zint(orig.blen) == zint(ln))):
        return orig.clen
    raise Unsupported("decode of a proper slice of an encoded string")


def fstr_sym(parts):
    from . import sstr
    return sstr.fstr_sym(parts)
