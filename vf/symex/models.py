"""E1 model library: byte strings, streams, and models of the C-level calls
that the repo's code makes with symbolic arguments.  Every entry here is a stub
in the sense of DESIGN.md section 2 and is listed in the evidence."""
import struct
import zlib
import binascii
import numbers
import math
import z3

from .core import (
    SInt, SBool, SFloat, Unsupported, BoundExceeded, cur, zint, zbool, concretize,
    WIDTH, RNE, F64, F32, is_sym,
)

STUBS_USED = set()


def _used(name):
    STUBS_USED.add(name)


class Blob:
    """An opaque run of bytes: slice [off, off+ln) of an uninterpreted source."""

    __slots__ = ("src", "off", "ln")

    def __init__(self, src, off, ln):
        self.src, self.off, self.ln = src, off, ln

    def __repr__(self):
        return f"Blob({self.src},{self.off},{self.ln})"


def _byte(x):
    """normalise a byte to int or SInt"""
    if isinstance(x, (int, SInt)):
        return x
    raise TypeError(x)


class SBytes:
    """Symbolic bytes: a sequence of pieces, each a byte (int | SInt in 0..255) or a Blob."""

    _sx_symbolic = True
    _sx_types = (bytes,)

    def __init__(self, pieces=()):
        self.pieces = list(pieces)

    @staticmethod
    def lift(x):
        if isinstance(x, SBytes):
            return x
        if isinstance(x, (bytes, bytearray)):
            return SBytes(list(x))
        raise TypeError(f"a bytes-like object is required, not '{type(x).__name__}'")

    def has_blob(self):
        return any(isinstance(p, Blob) for p in self.pieces)

    def _sx_len(self):
        n = 0
        for p in self.pieces:
            n = n + (p.ln if isinstance(p, Blob) else 1)
        return n

    def __len__(self):
        n = self._sx_len()
        if isinstance(n, SInt):
            return concretize(n)
        return n

    def __bool__(self):
        n = self._sx_len()
        return bool(n != 0)

    def __add__(self, o):
        return SBytes(self.pieces + SBytes.lift(o).pieces)

    def __radd__(self, o):
        return SBytes(SBytes.lift(o).pieces + self.pieces)

    def __iter__(self):
        if self.has_blob():
            raise Unsupported("iteration over opaque bytes")
        return iter(list(self.pieces))

    def _sx_getitem(self, i):
        if self.has_blob():
            raise Unsupported("index into opaque bytes")
        if isinstance(i, slice):
            return SBytes(self.pieces[i])
        return self.pieces[concretize(i)]

    def eq(self, o):
        """z3 Bool that implies byte-wise equality.  Blobs are uninterpreted, so they
        are compared structurally (same source, offset, length); where the two
        sides are structured differently the condition requires the unmatched blob
        to be empty (sufficient, and necessary as far as opaque content can be known)."""
        o = SBytes.lift(o)
        a, b = normalise(self.pieces), normalise(o.pieces)
        conj = []
        i = j = 0
        while i < len(a) or j < len(b):
            x = a[i] if i < len(a) else None
            y = b[j] if j < len(b) else None
            bx, by = isinstance(x, Blob), isinstance(y, Blob)
            if bx and by and x.src == y.src:
                conj.append(zint(x.off) == zint(y.off))
                conj.append(zint(x.ln) == zint(y.ln))
                i += 1
                j += 1
            elif bx:
                conj.append(zint(x.ln) == 0)
                i += 1
            elif by:
                conj.append(zint(y.ln) == 0)
                j += 1
            elif x is None or y is None:
                return z3.BoolVal(False)
            else:
                conj.append(zint(x) == zint(y))
                i += 1
                j += 1
        return z3.And(*conj) if conj else z3.BoolVal(True)

    def __eq__(self, o):
        if not isinstance(o, (bytes, bytearray, SBytes)):
            return False
        return SBool(z3.simplify(self.eq(o)))

    def __ne__(self, o):
        if not isinstance(o, (bytes, bytearray, SBytes)):
            return True
        return SBool(z3.simplify(z3.Not(self.eq(o))))

    def __hash__(self):
        raise Unsupported("hash of symbolic bytes")

    def hex(self):
        _used("bytes.hex (kept as the byte sequence; formatting trusted)")
        return SHex(self)

    def decode(self, encoding="utf-8", errors="strict"):
        _used("bytes.decode (UTF-8 as uninterpreted injective pair)")
        from .strings import decode_bytes
        return decode_bytes(self, encoding, errors)

    def __repr__(self):
        return f"SBytes({self.pieces})"


class SHex:
    _sx_symbolic = True
    _sx_types = (str,)

    def __init__(self, b):
        self.b = b


def normalise(pieces):
    """Drop empty blobs that are syntactically empty and merge adjacent slices of one source."""
    out = []
    for p in pieces:
        if isinstance(p, Blob):
            ln = p.ln
            if isinstance(ln, int) and ln == 0:
                continue
            if isinstance(ln, SInt):
                v = z3.simplify(ln.e)
                if z3.is_bv_value(v) and v.as_signed_long() == 0:
                    continue
            if out and isinstance(out[-1], Blob) and out[-1].src == p.src:
                q = out[-1]
                if z3.is_true(z3.simplify(zint(q.off + q.ln) == zint(p.off))):
                    out[-1] = Blob(q.src, q.off, q.ln + p.ln)
                    continue
        out.append(p)
    return out


class SymOut:
    """Write-only output stream model (what BinaryEncoder sees as fo)."""

    def __init__(self):
        self.pieces = []

    def write(self, data):
        self.pieces.extend(SBytes.lift(data).pieces)

    def flush(self):
        pass

    def tell(self):
        return SBytes(self.pieces)._sx_len()

    def getvalue(self):
        return SBytes(self.pieces)


class SymIn:
    """Sequential input stream model.  read(n) follows io.BytesIO: n<0 or None
    reads everything that remains; short reads at end of stream."""

    def __init__(self, data):
        self.pieces = normalise(SBytes.lift(data).pieces)
        self.pos = 0  # index into pieces (blobs are consumed by slicing)
        self.consumed = 0  # bytes consumed (int or SInt)

    def remaining(self):
        return SBytes(self.pieces[self.pos:])

    def read(self, n=-1):
        if n is None:
            n = -1
        if isinstance(n, SBool):
            n = concretize(n)
        out = []
        if isinstance(n, SInt) and not z3.is_bv_value(z3.simplify(n.e)):
            if n < 0:
                n = None
        elif isinstance(n, SInt):
            n = concretize(n)
        if isinstance(n, int) and n < 0:
            n = None
        if n is None:
            out = self.pieces[self.pos:]
            self.pos = len(self.pieces)
            r = SBytes(out)
            self.consumed = self.consumed + r._sx_len()
            return r
        need = n
        while self.pos < len(self.pieces):
            if isinstance(need, int) and need == 0:
                break
            if isinstance(need, SInt) and not (need > 0):
                break
            p = self.pieces[self.pos]
            if isinstance(p, Blob):
                if need >= p.ln:
                    out.append(p)
                    need = need - p.ln
                    self.pos += 1
                else:
                    out.append(Blob(p.src, p.off, need))
                    self.pieces[self.pos] = Blob(p.src, p.off + need, p.ln - need)
                    need = 0
            else:
                out.append(p)
                need = need - 1
                self.pos += 1
        r = SBytes(normalise(out))
        self.consumed = self.consumed + r._sx_len()
        return r

    def tell(self):
        return self.consumed

    def seek(self, off, whence=0):
        """io.BytesIO.seek: only forward relative moves are modelled (whence=1, off >= 0).  Like BytesIO the position
        may silently move past the end of the data."""
        if whence != 1:
            raise Unsupported("seek other than relative to the current position")
        if (off < 0):
            raise Unsupported("backward seek")
        before = self.consumed
        self.read(off)
        self.consumed = before + off  # the position moves by `off` even if fewer bytes were available
        return self.consumed

    def seekable(self):
        return True


# ------------------------------------------------------------------------
# struct.pack / unpack
# ------------------------------------------------------------------------

def _bytes_of_bv(bv, nbytes, little=True):
    bs = [SInt(z3.simplify(z3.ZeroExt(WIDTH - 8, z3.Extract(8 * i + 7, 8 * i, bv)))) for i in range(nbytes)]
    if not little:
        bs.reverse()
    return bs


def _bv_of_bytes(pieces, little=True):
    ps = list(pieces)
    if not little:
        ps.reverse()
    parts = [z3.Extract(7, 0, zint(p)) for p in ps]
    parts.reverse()  # Concat takes most significant first
    return z3.Concat(*parts) if len(parts) > 1 else parts[0]


_INT_CODES = {"B": (1, False), "b": (1, True), "H": (2, False), "h": (2, True), "I": (4, False), "i": (4, True),
              "L": (4, False), "l": (4, True), "Q": (8, False), "q": (8, True)}


def _parse_fmt(fmt):
    """(little, [codes]) for the struct formats E1 models: an optional byte-order prefix followed by integer/float
    codes with optional repeat counts.  Without a prefix (native mode) only formats that need no alignment padding
    are accepted: a single code, or single-byte codes only."""
    order = "@"
    body = fmt
    if fmt[:1] in "<>!=@":
        order, body = fmt[0], fmt[1:]
    codes, num = [], ""
    for ch in body:
        if ch.isdigit():
            num += ch
            continue
        if ch.isspace():
            continue
        if ch not in _INT_CODES and ch not in "fd":
            raise Unsupported(f"struct format {fmt!r}")
        codes += [ch] * (int(num) if num else 1)
        num = ""
    if num or not codes:
        raise Unsupported(f"struct format {fmt!r}")
    if order == "@":
        if len(codes) > 1 and any(c not in "Bb" for c in codes):
            raise Unsupported(f"struct format {fmt!r} (native alignment)")
        if any(c in "Ll" for c in codes):
            raise Unsupported(f"struct format {fmt!r} (native long)")
        little = True  # x86-64 / aarch64 little endian; validated against CPython on every path witness
    else:
        little = order == "<"
    return little, codes


def _pack_one(code, v, little):
    if code in _INT_CODES:
        size, signed = _INT_CODES[code]
        if isinstance(v, SBool):
            v = SInt(zint(v))
        if isinstance(v, (SFloat, float)):
            raise struct.error("required argument is not an integer")
        lo, hi = (-(1 << (8 * size - 1)), (1 << (8 * size - 1)) - 1) if signed else (0, (1 << (8 * size)) - 1)
        if (v < lo) or (v > hi):
            raise struct.error(f"'{code}' format requires {lo} <= number <= {hi}")
        if size == 1 and not signed:
            return [v if isinstance(v, SInt) else int(v)]
        return _bytes_of_bv(zint(v), size, little)
    if not isinstance(v, (int, float, SInt, SFloat, SBool)):
        raise struct.error("required argument is not a float")
    f = SFloat.lift(v if not isinstance(v, SBool) else SInt(zint(v)))
    if code == "d":
        return _bytes_of_bv(z3.fpToIEEEBV(f.e), 8, little)
    f32 = z3.fpFPToFP(RNE, f.e, F32)
    if cur().fork(z3.And(z3.fpIsInf(f32), z3.Not(z3.fpIsInf(f.e)))):
        raise OverflowError("float too large to pack with f format")
    return _bytes_of_bv(z3.fpToIEEEBV(f32), 4, little)


def m_pack(fmt, *vals):
    _used(f"struct.pack({fmt!r})")
    little, codes = _parse_fmt(fmt)
    if len(codes) != len(vals):
        raise struct.error(f"pack expected {len(codes)} items for packing (got {len(vals)})")
    out = []
    for c, v in zip(codes, vals):
        out += _pack_one(c, v, little)
    return SBytes(out)


def m_unpack(fmt, data):
    _used(f"struct.unpack({fmt!r})")
    data = SBytes.lift(data)
    if data.has_blob():
        raise Unsupported("unpack of opaque bytes")
    little, codes = _parse_fmt(fmt)
    size = sum(_INT_CODES[c][0] if c in _INT_CODES else (4 if c == "f" else 8) for c in codes)
    if len(data.pieces) != size:
        raise struct.error(f"unpack requires a buffer of {size} bytes")
    out, pos = [], 0
    for c in codes:
        n = _INT_CODES[c][0] if c in _INT_CODES else (4 if c == "f" else 8)
        ps = data.pieces[pos:pos + n]
        pos += n
        if c in _INT_CODES:
            signed = _INT_CODES[c][1]
            if n == 1 and not signed:
                out.append(ps[0])
                continue
            bv = _bv_of_bytes(ps, little)
            out.append(SInt(z3.simplify(z3.SignExt(WIDTH - 8 * n, bv) if signed else z3.ZeroExt(WIDTH - 8 * n, bv))))
        else:
            bv = _bv_of_bytes(ps, little)
            out.append(SFloat(z3.fpBVToFP(bv, F64)) if c == "d" else SFloat(z3.fpFPToFP(RNE, z3.fpBVToFP(bv, F32), F64)))
    return tuple(out)


# ------------------------------------------------------------------------
# builtins
# ------------------------------------------------------------------------

def m_len(x):
    f = getattr(x, "_sx_len", None)
    if f is not None:
        return f()
    return len(x)


def _pytypes(x):
    return getattr(type(x), "_sx_types", None) if not hasattr(x, "_sx_types_inst") else x._sx_types_inst


def m_isinstance(x, t):
    ts = _pytypes(x)
    if ts is None:
        return isinstance(x, t)
    if not isinstance(t, tuple):
        t = (t,)
    for cls in t:
        for own in ts:
            try:
                if issubclass(own, cls):
                    return True
            except TypeError:
                pass
    return False


def m_type(x, *a):
    if a:
        return type(x, *a)
    ts = _pytypes(x)
    if ts is None:
        return type(x)
    return ts[0]


def m_ord(c):
    if isinstance(c, SBytes):
        n = c._sx_len()
        ps = normalise(c.pieces)
        if len(ps) == 1 and isinstance(ps[0], Blob) and z3.is_true(z3.simplify(zint(ps[0].ln) == 1)):
            # one byte of an opaque source: an arbitrary (but fixed per source position) byte
            _used("ord(opaque byte): fresh symbolic byte per (source, offset)")
            ctx = cur()
            cache = getattr(ctx, "_blobbytes", None)
            if cache is None or getattr(ctx, "_blobbytes_solver", None) is not ctx.solver:
                cache = ctx._blobbytes = {}
                ctx._blobbytes_solver = ctx.solver
            key = (ps[0].src, str(z3.simplify(zint(ps[0].off))))
            if key not in cache:
                if len(cache) >= 12:
                    raise Unsupported("more than 12 bytes read from an opaque source on one path")
                e = z3.BitVec(ctx.fresh("blobbyte"), WIDTH)
                ctx.solver.add(z3.And(e >= 0, e <= 255))
                ctx.pc.append(z3.And(e >= 0, e <= 255))
                ctx.inputs[f"{ps[0].src}[{key[1]}]"] = e
                cache[key] = SInt(e)
            return cache[key]
        if isinstance(n, SInt) or c.has_blob():
            raise Unsupported("ord of opaque bytes")
        if n != 1:
            raise TypeError(f"ord() expected a character, but string of length {n} found")
        return c.pieces[0]
    from .strings import SStr
    if isinstance(c, SStr):
        return c.ord()
    return ord(c)


def m_int(x=0, *a):
    if a:
        if is_sym(x):
            raise Unsupported("int(x, base) on symbolic value")
        return int(x, *a)
    if isinstance(x, SInt):
        return x
    if isinstance(x, SBool):
        return SInt(zint(x))
    if isinstance(x, SFloat):
        _used("int(float): round toward zero (fpToSBV RTZ)")
        c = cur()
        if c.fork(z3.fpIsNaN(x.e)):
            raise ValueError("cannot convert float NaN to integer")
        if c.fork(z3.fpIsInf(x.e)):
            raise OverflowError("cannot convert float infinity to integer")
        lim = float(1 << (WIDTH - 2))
        c.add_vc(z3.And(z3.fpLT(x.e, z3.FPVal(lim, F64)), z3.fpGT(x.e, z3.FPVal(-lim, F64))))
        return SInt(z3.fpToSBV(z3.RTZ(), x.e, z3.BitVecSort(WIDTH)))
    if is_sym(x):
        f = getattr(x, "_sx_int", None)
        if f:
            return f()
        raise Unsupported(f"int() of {type(x).__name__}")
    return int(x)


def m_float(x=0.0):
    if isinstance(x, SFloat):
        return x
    if isinstance(x, (SInt,)):
        _used("float(int): fpSignedToFP RNE")
        return SFloat.lift(x)
    if isinstance(x, SBool):
        return SFloat.lift(SInt(zint(x)))
    if is_sym(x):
        f = getattr(x, "_sx_float", None)
        if f:
            return f()
        raise Unsupported(f"float() of {type(x).__name__}")
    return float(x)


def m_bool(x=False):
    if isinstance(x, SBool):
        return x
    if isinstance(x, SInt):
        return SBool(x.e != zint(0, x.e))
    return bool(x)


def m_bytes(x=b"", *a):
    if a:
        return bytes(x, *a)
    if isinstance(x, SBytes):
        return x
    if isinstance(x, list) and any(is_sym(v) for v in x):
        out = []
        for v in x:
            if isinstance(v, SBool):
                v = SInt(zint(v))
            if (v < 0) or (v > 255):
                raise ValueError("bytes must be in range(0, 256)")
            out.append(v)
        return SBytes(out)
    if isinstance(x, SInt):
        n = concretize(x, 0, 64)
        return bytes(n)
    return bytes(x)


def m_range(*a):
    if not any(is_sym(v) for v in a):
        return range(*a)
    if len(a) == 1:
        lo, hi, st = 0, a[0], 1
    elif len(a) == 2:
        lo, hi, st = a[0], a[1], 1
    else:
        lo, hi, st = a
    st = concretize(st)

    def gen():
        i = lo
        n = 0
        while (i < hi) if st > 0 else (i > hi):
            yield i
            i = i + st
            n += 1
            if n > 4096:
                raise BoundExceeded("symbolic range")

    return gen()


def m_abs(x):
    return abs(x)


def m_crc32(data, *a):
    _used("binascii.crc32 (fresh symbolic 32-bit value)")
    if not is_sym(data):
        return binascii.crc32(data, *a)
    c = cur()
    e = z3.BitVec(c.fresh("crc32"), WIDTH)
    c.solver.add(z3.And(e >= 0, e <= 0xFFFFFFFF))
    c.pc.append(z3.And(e >= 0, e <= 0xFFFFFFFF))
    return SInt(e)


def m_adler32(data, value=1):
    _used("zlib.adler32 (sums modulo 65521) on byte strings of concrete length")
    data = SBytes.lift(data)
    if data.has_blob():
        raise Unsupported("adler32 of opaque bytes")
    a = value & 0xFFFF
    b = (value >> 16) & 0xFFFF
    for p in data.pieces:
        a = (a + p) % 65521
        b = (b + a) % 65521
    return (b << 16) | a


def m_math_floor(x):
    if isinstance(x, SFloat):
        _used("math.floor (fpRoundToIntegral RTN, then exact conversion)")
        r = z3.fpRoundToIntegral(z3.RTN(), x.e)
        return m_int(SFloat(r))
    f = getattr(x, "_sx_floor", None)
    if f is not None:
        return f()
    return math.floor(x)


def m_math_log10(x):
    if is_sym(x):
        raise Unsupported("math.log10 of symbolic value")
    return math.log10(x)


CALL_MODELS = {
    id(struct.pack): m_pack,
    id(struct.unpack): m_unpack,
    id(len): m_len,
    id(isinstance): m_isinstance,
    id(type): m_type,
    id(ord): m_ord,
    id(int): m_int,
    id(float): m_float,
    id(bool): m_bool,
    id(bytes): m_bytes,
    id(range): m_range,
    id(binascii.crc32): m_crc32,
    id(zlib.adler32): m_adler32,
    id(math.floor): m_math_floor,
}
_KEEP = [struct.pack, struct.unpack, len, isinstance, type, ord, int, float, bool, bytes, range,
         binascii.crc32, math.floor, zlib.adler32]


def any_sym(args, kwargs=None):
    for a in args:
        if is_sym(a):
            return True
        if isinstance(a, (list, tuple)) and any(is_sym(v) for v in a):
            return True
    if kwargs:
        for a in kwargs.values():
            if is_sym(a):
                return True
    return False
