"""E1 bounded character-level strings.

SStr stands for a Python `str` of at most `cap` characters, every character in 1..127 (ASCII without NUL: a stated
bound - case mapping, UTF-8 length and `str` comparison are then per-character).  The length is a z3 term until an
operation needs the shape (slicing, split, concatenation); such operations fork over the feasible lengths/positions
(`fix()`), after which the value is a list of character terms of concrete length.  Tests (`==`, `in`, `startswith`,
truth, `len`) never fork on their own: they return SBool/SInt.

Only what fastavro's name handling uses is modelled; anything else raises Unsupported (inconclusive, never success).
"""
import z3

from .core import SInt, SBool, Unsupported, cur, zint, concretize, WIDTH

CW = 8  # bits per character term


def _c(x):
    """character -> z3 BV(CW) term"""
    if isinstance(x, int):
        return z3.BitVecVal(x, CW)
    return x


def _is_conc(x):
    return isinstance(x, int)


class SStr:
    _sx_symbolic = True
    _sx_str = True
    _sx_types = (str,)

    def __init__(self, chars, n=None):
        """chars: list of int | BV(CW); n: None (len(chars)) or BV(WIDTH) term <= len(chars) (chars beyond n are 0)"""
        self.cs = list(chars)
        self.n = n

    # -- construction -------------------------------------------------------
    @staticmethod
    def fresh(name, cap, lo=1, hi=127):
        c = cur()
        n = z3.BitVec(name + ".len", WIDTH)
        c.inputs[name + ".len"] = n
        cons = [n >= 0, n <= cap]
        cs = []
        for i in range(cap):
            ch = z3.BitVec(f"{name}[{i}]", CW)
            c.inputs[f"{name}[{i}]"] = ch
            cs.append(ch)
            inside = z3.BitVecVal(i, WIDTH) < n
            cons.append(z3.If(inside, z3.And(z3.UGE(ch, lo), z3.ULE(ch, hi)), ch == 0))
        for k in cons:
            c.solver.add(k)
            c.pc.append(k)
        return SStr(cs, n)

    @staticmethod
    def lift(x):
        if isinstance(x, SStr):
            return x
        if isinstance(x, str):
            if any(ord(ch) > 127 or ord(ch) == 0 for ch in x):
                raise Unsupported("non-ASCII literal next to a symbolic string")
            return SStr([ord(ch) for ch in x])
        raise TypeError(f"can only concatenate str (not \"{type(x).__name__}\") to str")

    # -- shape ----------------------------------------------------------------
    def fix(self):
        """concrete-length view (forks over the feasible lengths)"""
        if self.n is None:
            return self
        k = concretize(SInt(self.n), 0, len(self.cs))
        self.cs = self.cs[:k]
        self.n = None
        return self

    def zlen(self):
        return z3.BitVecVal(len(self.cs), WIDTH) if self.n is None else self.n

    def _sx_len(self):
        return SInt(self.zlen())

    def __len__(self):
        return len(self.fix().cs)

    def __bool__(self):
        if self.n is None:
            return len(self.cs) > 0
        return cur().fork(self.n != 0)

    # -- comparisons ------------------------------------------------------------
    def _eq_term(self, o):
        if isinstance(o, str):
            try:
                o = SStr.lift(o)
            except Unsupported:
                return z3.BoolVal(False)  # a string with a non-ASCII/NUL character differs from every value in the bound
        if not isinstance(o, SStr):
            return None
        m = max(len(self.cs), len(o.cs))
        parts = [self.zlen() == o.zlen()]
        for i in range(m):
            a = _c(self.cs[i]) if i < len(self.cs) else z3.BitVecVal(0, CW)
            b = _c(o.cs[i]) if i < len(o.cs) else z3.BitVecVal(0, CW)
            parts.append(a == b)
        return z3.simplify(z3.And(*parts))

    def __eq__(self, o):
        t = self._eq_term(o)
        if t is None:
            return False
        return SBool(t)

    def __ne__(self, o):
        t = self._eq_term(o)
        if t is None:
            return True
        return SBool(z3.Not(t))

    def __hash__(self):
        raise Unsupported("hash of a symbolic string (set/dict keyed by it: use SymSet/SymMap)")

    def _sx_is(self, o):
        return self is o

    def _sx_contains(self, sub):
        """sub in self"""
        sub = SStr.lift(sub)
        if sub.n is not None:
            sub.fix()
        k = len(sub.cs)
        if k == 0:
            return True
        alts = []
        for i in range(0, len(self.cs) - k + 1):
            alts.append(z3.And(z3.BitVecVal(i + k, WIDTH) <= self.zlen(),
                               *[_c(self.cs[i + j]) == _c(sub.cs[j]) for j in range(k)]))
        return SBool(z3.simplify(z3.Or(*alts)) if alts else z3.BoolVal(False))

    def startswith(self, p, *a):
        if a or not isinstance(p, str):
            raise Unsupported("startswith form")
        p = SStr.lift(p)
        if len(p.cs) > len(self.cs):
            return False
        return SBool(z3.And(z3.BitVecVal(len(p.cs), WIDTH) <= self.zlen(),
                            *[_c(self.cs[i]) == _c(p.cs[i]) for i in range(len(p.cs))]))

    def endswith(self, p, *a):
        if a or not isinstance(p, str):
            raise Unsupported("endswith form")
        self.fix()
        k = len(p)
        if k > len(self.cs):
            return False
        return SStr(self.cs[len(self.cs) - k:]) == p

    # -- building -----------------------------------------------------------------
    def __add__(self, o):
        o = SStr.lift(o)
        return SStr(self.fix().cs + o.fix().cs)

    def __radd__(self, o):
        o = SStr.lift(o)
        return SStr(o.fix().cs + self.fix().cs)

    def _sx_getitem(self, idx):
        self.fix()
        if isinstance(idx, slice):
            if any(getattr(x, "_sx_symbolic", False) for x in (idx.start, idx.stop, idx.step)):
                idx = slice(*[None if x is None else concretize(x) for x in (idx.start, idx.stop, idx.step)])
            return SStr(self.cs[idx])
        i = concretize(idx) if not isinstance(idx, int) else idx
        return SStr([self.cs[i]])

    __getitem__ = _sx_getitem

    def _map(self, f):
        return SStr([f(ch) for ch in self.cs], self.n)

    def upper(self):
        def up(ch):
            if _is_conc(ch):
                return ord(chr(ch).upper())
            return z3.If(z3.And(z3.UGE(ch, 97), z3.ULE(ch, 122)), ch - 32, ch)
        return self._map(up)

    def lower(self):
        def lo(ch):
            if _is_conc(ch):
                return ord(chr(ch).lower())
            return z3.If(z3.And(z3.UGE(ch, 65), z3.ULE(ch, 90)), ch + 32, ch)
        return self._map(lo)

    _WS = (9, 10, 11, 12, 13, 28, 29, 30, 31, 32)  # str.isspace() within ASCII

    def _is_ws(self, ch):
        if _is_conc(ch):
            return ch in SStr._WS
        return cur().fork(z3.Or(*[ch == w for w in SStr._WS]))

    def _strip(self, chars, left, right):
        if chars is not None:
            raise Unsupported("strip(chars)")
        self.fix()
        a, b = 0, len(self.cs)
        if left:
            while a < b and self._is_ws(self.cs[a]):
                a += 1
        if right:
            while b > a and self._is_ws(self.cs[b - 1]):
                b -= 1
        return SStr(self.cs[a:b])

    def strip(self, chars=None):
        return self._strip(chars, True, True)

    def lstrip(self, chars=None):
        return self._strip(chars, True, False)

    def rstrip(self, chars=None):
        return self._strip(chars, False, True)

    def _find_positions(self, sep):
        """concrete list of the positions at which `sep` (one concrete character) occurs (forks per character)"""
        self.fix()
        pos = []
        for i, ch in enumerate(self.cs):
            if _is_conc(ch):
                hit = ch == sep
            else:
                hit = cur().fork(ch == sep)
            if hit:
                pos.append(i)
        return pos

    def _split(self, sep, maxsplit, right):
        if not isinstance(sep, str) or len(sep) != 1:
            raise Unsupported("split separator")
        if not isinstance(maxsplit, int):
            maxsplit = concretize(maxsplit)
        pos = self._find_positions(ord(sep))
        if maxsplit >= 0:
            pos = pos[len(pos) - maxsplit:] if right else pos[:maxsplit]
            if maxsplit == 0:
                pos = []
        out, start = [], 0
        for p in pos:
            out.append(SStr(self.cs[start:p]))
            start = p + 1
        out.append(SStr(self.cs[start:]))
        return out

    def split(self, sep=None, maxsplit=-1):
        return self._split(sep, maxsplit, False)

    def rsplit(self, sep=None, maxsplit=-1):
        return self._split(sep, maxsplit, True)

    def rpartition(self, sep):
        parts = self._split(sep, 1, True)
        if len(parts) == 1:
            return (SStr([]), SStr([]), parts[0])
        return (parts[0], SStr.lift(sep), parts[1])

    def partition(self, sep):
        parts = self._split(sep, 1, False)
        if len(parts) == 1:
            return (parts[0], SStr([]), SStr([]))
        return (parts[0], SStr.lift(sep), parts[1])

    def encode(self, encoding="utf-8", errors="strict"):
        from .models import SBytes
        if encoding.lower().replace("_", "-") not in ("utf-8", "utf8", "ascii"):
            raise Unsupported(f"encode({encoding})")
        self.fix()
        return SBytes([ch if _is_conc(ch) else SInt(z3.ZeroExt(WIDTH - CW, ch)) for ch in self.cs])

    def __str__(self):
        raise Unsupported("str() of a symbolic string outside the call hook")

    def __repr__(self):
        return f"SStr(n={self.n}, cs={self.cs})"

    def __format__(self, spec):
        raise Unsupported("format of a symbolic string outside the f-string hook")


# ---- regular expressions over bounded strings ------------------------------------------------------------------
# Only patterns that are a concatenation of single-character items (literal, class) with optional quantifiers
# are modelled (identifier-like patterns); anything else is Unsupported.

def _charset_term(ch, spec):
    """z3 Bool: character term ch is in the sre IN-list / literal `spec`"""
    import re._constants as C
    op, av = spec
    if op == C.LITERAL:
        return _c(ch) == av
    if op == C.NOT_LITERAL:
        return _c(ch) != av
    if op == C.ANY:
        return _c(ch) != 10
    if op == C.IN:
        neg = False
        alts = []
        for (o2, a2) in av:
            if o2 == C.NEGATE:
                neg = True
            elif o2 == C.LITERAL:
                alts.append(_c(ch) == a2)
            elif o2 == C.RANGE:
                alts.append(z3.And(z3.UGE(_c(ch), a2[0]), z3.ULE(_c(ch), a2[1])))
            elif o2 == C.CATEGORY:
                name = str(a2)
                digit = z3.And(z3.UGE(_c(ch), 48), z3.ULE(_c(ch), 57))
                word = z3.Or(digit, z3.And(z3.UGE(_c(ch), 65), z3.ULE(_c(ch), 90)), z3.And(z3.UGE(_c(ch), 97), z3.ULE(_c(ch), 122)), _c(ch) == 95)
                space = z3.Or(*[_c(ch) == w for w in SStr._WS])
                if name.endswith("CATEGORY_DIGIT"):
                    alts.append(digit)
                elif name.endswith("CATEGORY_NOT_DIGIT"):
                    alts.append(z3.Not(digit))
                elif name.endswith("CATEGORY_WORD"):
                    alts.append(word)
                elif name.endswith("CATEGORY_NOT_WORD"):
                    alts.append(z3.Not(word))
                elif name.endswith("CATEGORY_SPACE"):
                    alts.append(space)
                elif name.endswith("CATEGORY_NOT_SPACE"):
                    alts.append(z3.Not(space))
                else:
                    raise Unsupported(f"regex category {name}")
            else:
                raise Unsupported(f"regex class item {o2}")
        t = z3.Or(*alts) if alts else z3.BoolVal(False)
        return z3.Not(t) if neg else t
    raise Unsupported(f"regex item {op}")


def regex_fullmatch(pattern, flags, s):
    """SBool: the whole of s matches the pattern (ASCII strings; flags other than 0/UNICODE unsupported)"""
    import re
    import re._parser as P
    import re._constants as C
    if flags & ~(re.UNICODE | re.ASCII):
        raise Unsupported("regex flags")
    items = []
    for op, av in P.parse(pattern):
        if op in (C.MAX_REPEAT, C.MIN_REPEAT):
            lo, hi, sub = av
            sub = list(sub)
            if len(sub) != 1:
                raise Unsupported("regex: repeat of a group")
            items.append((sub[0], lo, None if hi == C.MAXREPEAT else hi))
        elif op in (C.LITERAL, C.NOT_LITERAL, C.IN, C.ANY):
            items.append(((op, av), 1, 1))
        else:
            raise Unsupported(f"regex construct {op}")
    s.fix()
    n = len(s.cs)
    memo = {}

    def match(i, pos):
        if (i, pos) in memo:
            return memo[(i, pos)]
        if i == len(items):
            r = z3.BoolVal(pos == n)
        else:
            spec, lo, hi = items[i]
            top = n - pos if hi is None else min(hi, n - pos)
            alts = []
            for k in range(lo, top + 1):
                alts.append(z3.And(*[_charset_term(s.cs[pos + j], spec) for j in range(k)], match(i + 1, pos + k)))
            r = z3.Or(*alts) if alts else z3.BoolVal(False)
        memo[(i, pos)] = r
        return r
    return SBool(z3.simplify(match(0, 0)))


def join(sep, items):
    items = list(items)
    out = SStr([])
    for i, it in enumerate(items):
        if i:
            out = out + sep
        out = out + it
    return out


def fstr_sym(parts):
    """f-string with at least one symbolic string among the substitutions; other symbolic kinds are not formatted
    faithfully (only error messages do that) and poison the result so that it cannot be compared"""
    out = SStr([])
    for p in parts:
        if isinstance(p, tuple):
            v, conv, spec = p
            if isinstance(v, SStr):
                if spec or conv not in (-1, ord("s")):
                    if conv == ord("r"):
                        out = out + "'" + v + "'"
                        continue
                    raise Unsupported("format spec on a symbolic string")
                out = out + v
            elif getattr(v, "_sx_symbolic", False):
                raise Unsupported("f-string mixing a symbolic string and another symbolic value")
            else:
                if conv == ord("r"):
                    v = repr(v)
                elif conv == ord("a"):
                    v = ascii(v)
                else:
                    v = str(v)
                try:
                    out = out + format(v, spec or "")
                except Unsupported:
                    out = out + "?"
        else:
            out = out + p
    return out


class SymSet:
    """a set keyed by (possibly symbolic) strings: membership compares by value, one fork per element"""
    _sx_symbolic = False

    def __init__(self, items=()):
        self.items = list(items)
        self.added = []

    def _sx_contains(self, x):
        for it in self.items:
            if it == x:
                return True
        return False

    def __contains__(self, x):
        return self._sx_contains(x)

    def add(self, x):
        if not self._sx_contains(x):
            self.items.append(x)
        self.added.append(x)

    def __iter__(self):
        return iter(list(self.items))

    def __len__(self):
        return len(self.items)


class SymMap:
    """a dict keyed by (possibly symbolic) strings (assoc list; lookups compare by value and fork per key)"""
    _sx_symbolic = False

    def __init__(self, pairs=()):
        self.pairs = [list(p) for p in pairs]
        self.sets = []

    def _find(self, k):
        for p in self.pairs:
            if p[0] == k:
                return p
        return None

    def _sx_contains(self, k):
        return self._find(k) is not None

    def __contains__(self, k):
        return self._sx_contains(k)

    def _sx_getitem(self, k):
        p = self._find(k)
        if p is None:
            raise KeyError(k)
        return p[1]

    def __getitem__(self, k):
        return self._sx_getitem(k)

    def get(self, k, default=None):
        p = self._find(k)
        return default if p is None else p[1]

    def __setitem__(self, k, v):
        self.sets.append((k, v))
        p = self._find(k)
        if p is None:
            self.pairs.append([k, v])
        else:
            p[1] = v

    def keys(self):
        return [p[0] for p in self.pairs]

    def values(self):
        return [p[1] for p in self.pairs]

    def items(self):
        return [(p[0], p[1]) for p in self.pairs]

    def __iter__(self):
        return iter(self.keys())

    def __len__(self):
        return len(self.pairs)
