"""Runtime hooks called by instrumented code."""
import z3

from .core import SInt, SBool, SFloat, Unsupported, cur, zint, concretize, is_sym, Ctx
from . import models
from .models import CALL_MODELS, any_sym, SBytes

METHOD_MODELS = {}


def call(f, *args, **kwargs):
    if Ctx.current is not None:
        m = CALL_MODELS.get(id(f))
        if m is None:
            owner = getattr(f, "__self__", None)
            if owner is not None and METHOD_MODELS:
                m = METHOD_MODELS.get((id(owner), getattr(f, "__name__", "")))
        if m is not None and (any_sym(args, kwargs) or getattr(m, "_always", False)):
            return m(*args, **kwargs)
        # bound methods of builtin containers with symbolic arguments
        self = getattr(f, "__self__", None)
        if isinstance(self, str) and getattr(f, "__name__", "") == "join" and len(args) == 1 and not kwargs:
            items = list(args[0])
            if self == "" and items and all(isinstance(x, models.SHex) for x in items):
                out = SBytes([])
                for x in items:
                    out = out + x.b
                return models.SHex(out)
            if self == "" and not items:
                return ""
            if any(getattr(x, "_sx_str", False) is True for x in items):
                from . import sstr
                return sstr.join(self, items)
            return self.join(items)
        if f is str and len(args) == 1 and getattr(args[0], "_sx_str", False) is True:
            return args[0]
        if type(self).__name__ == "Pattern" and type(self).__module__ == "re" and getattr(f, "__name__", "") == "fullmatch" \
                and len(args) == 1 and getattr(args[0], "_sx_str", False) is True:
            from . import sstr
            models._used("re.Pattern.fullmatch on a bounded symbolic string (character classes and quantifiers)")
            return sstr.regex_fullmatch(self.pattern, self.flags, args[0])
        if f is set and len(args) == 1 and isinstance(args[0], (list, tuple)) and any(getattr(x, "_sx_str", False) is True for x in args[0]):
            from . import sstr
            st = sstr.SymSet([])
            for x in args[0]:
                st.add(x)
            return st
        if self is not None and args and any_sym(args):
            name = getattr(f, "__name__", "")
            if isinstance(self, dict) and name == "get":
                return _dict_get(self, *args)
            if isinstance(self, (list, tuple)) and name == "index" and len(args) == 1:
                for i, x in enumerate(self):
                    if x == args[0]:
                        return i
                raise ValueError("value not in list")
        if hasattr(f, "cache_info") and hasattr(f, "__wrapped__") and any_sym(args, kwargs):
            return _memo_call(f, args, kwargs)
    return f(*args, **kwargs)


_MEMO = {}


def _memo_call(f, args, kwargs):
    """functools.lru_cache / cache around a function, with symbolic arguments: the cache is modelled as an
    association list per exploration run; a lookup hits when every argument compares equal (Python's ==, so
    0.0 hits -0.0 and 1 hits 1.0, as in the real cache), otherwise the wrapped function runs"""
    models._used("functools.lru_cache: association list with == on the arguments (eviction not modelled)")
    c = cur()
    store = _MEMO.get(id(f))
    if store is None or store[0] is not c.solver:
        store = _MEMO[id(f)] = (c.solver, [])
    entries = store[1]
    key = tuple(args) + tuple(sorted(kwargs.items()))
    for k0, r0 in entries:
        if len(k0) != len(key):
            continue
        hit = True
        for a, b in zip(key, k0):
            if not (a == b):
                hit = False
                break
        if hit:
            return r0
    r = call(f.__wrapped__, *args, **kwargs)
    entries.append((key, r))
    return r


def strmod(fmt, val):
    """'%02x' % byte with a symbolic byte: two lower-case hex digits, kept as the byte itself (models.SHex)"""
    if Ctx.current is not None and isinstance(val, SInt) and fmt == "%02x":
        c = cur()
        if c.check(z3.Not(z3.And(val.e >= 0, val.e <= 255))) == z3.unsat:
            models._used("'%02x' % byte (kept as the byte; formatting trusted)")
            return models.SHex(SBytes([val]))
    return fmt % val


_SYMKEYS = {}  # id(dict) -> (solver of the run, [(key, value)]): entries stored under symbolic keys


def _has_sym(x):
    if is_sym(x):
        return True
    if isinstance(x, (tuple, list)):
        return any(_has_sym(y) for y in x)
    return False


def _side(d, create=False):
    if Ctx.current is None:
        return None
    e = _SYMKEYS.get(id(d))
    if e is not None and e[0] is Ctx.current.solver and e[2] is d:
        return e[1]
    if create:
        _SYMKEYS[id(d)] = (Ctx.current.solver, [], d)
        return _SYMKEYS[id(d)][1]
    return None


def setitem(obj, key, val):
    if Ctx.current is not None and type(obj) is dict and _has_sym(key):
        models._used("dict keyed by symbolic values: association list consulted before the concrete dictionary")
        _side(obj, True).append((key, val))
        return
    obj[key] = val


def _side_lookup(d, key):
    """(found, value) among the symbolic-key entries, newest first"""
    es = _side(d)
    if es:
        for k, v in reversed(es):
            if key == k:
                return True, v
    return False, None


def _dict_get(d, key, default=None):
    found, v = _side_lookup(d, key)
    if found:
        return v
    for k in d:
        if key == k:
            return d[k]
    return default


def getitem(obj, idx):
    g = getattr(obj, "_sx_getitem", None)
    if g is not None:
        return g(idx)
    if isinstance(idx, SBool):
        idx = SInt(zint(idx))
    if isinstance(idx, SInt):
        v = z3.simplify(idx.e)
        if z3.is_bv_value(v):
            return obj[v.as_signed_long()]
        if z3.is_int_value(v):
            return obj[v.as_long()]
        if isinstance(obj, (list, tuple, str, bytes)):
            n = len(obj)
            if (idx >= n) or (idx < -n):
                raise IndexError("index out of range")
            if n and all(isinstance(x, (int, SInt)) and not isinstance(x, bool) for x in obj):
                models._used("sequence[symbolic index] as an if-then-else chain")
                pos = idx
                if idx < 0:
                    pos = idx + n
                e = zint(obj[n - 1])
                for i in range(n - 2, -1, -1):
                    e = z3.If(pos.e == zint(i, pos.e), zint(obj[i]), e)
                return SInt(e)
            return obj[concretize(idx)]
        if isinstance(obj, dict):
            found, v = _side_lookup(obj, idx)
            if found:
                return v
            for k in obj:
                if idx == k:
                    return obj[k]
            raise KeyError(idx)
        raise Unsupported(f"symbolic index into {type(obj).__name__}")
    if isinstance(obj, dict) and (_has_sym(idx) or _side(obj)):
        found, v = _side_lookup(obj, idx)
        if found:
            return v
        for k in obj:
            if idx == k:
                return obj[k]
        raise KeyError(idx)
    return obj[idx]


def contains(a, b):
    c = getattr(b, "_sx_contains", None)
    if c is not None:
        return c(a)
    if isinstance(b, dict) and (_has_sym(a) or _side(b)):
        found, _ = _side_lookup(b, a)
        if found:
            return True
        for x in b:
            if a == x:
                return True
        return False
    if is_sym(a) and isinstance(b, (list, tuple, set, frozenset, dict)) or (
        isinstance(b, (list, tuple)) and any(is_sym(x) for x in b)
    ):
        for x in b:
            if a == x:
                return True
        return False
    return a in b


def not_contains(a, b):
    return not contains(a, b)


def is_(a, b):
    f = getattr(a, "_sx_is", None)
    if f is not None:
        return f(b)
    f = getattr(b, "_sx_is", None)
    if f is not None:
        return f(a)
    return a is b


def is_not(a, b):
    return not is_(a, b)


def fstr(parts):
    from .strings import SStr, fstr_sym
    vals = []
    sym = False
    for p in parts:
        if isinstance(p, tuple):
            v, conv, spec = p
            if getattr(v, "_sx_str", False):
                sym = True
            vals.append((v, conv, spec))
        else:
            vals.append(p)
    if sym:
        return fstr_sym(vals)
    out = []
    for p in vals:
        if isinstance(p, tuple):
            v, conv, spec = p
            if is_sym(v):
                out.append("<sym>")
                continue
            if conv == ord("r"):
                v = repr(v)
            elif conv == ord("s"):
                v = str(v)
            elif conv == ord("a"):
                v = ascii(v)
            out.append(format(v, spec or ""))
        else:
            out.append(p)
    return "".join(out)


HAVOC_ARMED = {}


def havoc(fn, var, current):
    """loop cut: returns the harness-supplied value when armed, else the real one"""
    f = HAVOC_ARMED.get((fn, var))
    if f is None:
        return current
    return f(current)
