"""E1 models of datetime / time / Decimal / UUID objects, by their documented contracts.
Integers are z3 Ints (arith mode).  Each model is a stub in the sense of DESIGN.md and is
validated every run against CPython on the path witnesses."""
import datetime as _dt
import decimal as _decimal
import time as _time
import uuid as _uuid
import z3

from .core import SInt, SBool, SFloat, Unsupported, cur, zint, concretize, is_sym
from .models import CALL_MODELS, _used, _KEEP

US_DAY = 86400 * 10**6
MAXORD = _dt.date.max.toordinal()  # 3652059


def I(x):
    if isinstance(x, SInt):
        return x
    return SInt(z3.IntVal(int(x)))


def _ite(c, a, b):
    return SInt(z3.If(c, I(a).e, I(b).e))


class Ratio:
    """A float computed from ONE symbolic integer x by a chain of IEEE operations with concrete constants - a "float
    island": x / c (Python's exact, correctly rounded int/int division) optionally followed by * k and / k - and
    finally turned back into an integer by int() (truncation), round() (half-even) or math.floor().

    The integer result is modelled by exact rational arithmetic, which is justified by a lemma
        island(x) == mode(x * num / den)   for lo <= x <= hi
    proved separately, bit-precisely, in QF_BVFP (props/C16); its range is checked here against the path condition.
    A chain for which no lemma is known is *demanded* (recorded with the range the path establishes); the check
    proves or refutes it and explores again.  A refuted lemma contributes its counterexample: the path on which x is
    that value continues with the island evaluated by CPython's own float arithmetic, every other value of x is
    reported as not covered."""

    _sx_symbolic = True
    _sx_types = (float,)
    LEMMAS = {}  # legacy: c -> (lo, hi) proven for int(x / c)
    PROVEN = {}  # (ops, mode) -> [(lo, hi)]
    REFUTED = {}  # (ops, mode) -> [x0, ...]
    USED = set()

    def __init__(self, x, c, ops=None):
        self.x, self.c = x, c
        self.ops = ops if ops is not None else (("idiv", c),)

    def _then(self, op, k):
        if isinstance(k, bool) or not isinstance(k, (int, float)):
            raise Unsupported(f"float island combined with {type(k).__name__}")
        return Ratio(self.x, self.c, self.ops + ((op, k),))

    def __mul__(self, k):
        return self._then("mul", k)

    __rmul__ = __mul__

    def __truediv__(self, k):
        return self._then("div", k)

    # -- exact reference --------------------------------------------------------
    def _scale(self):
        """(num, den) of the exact rational factor, or None when a constant is not an integer"""
        num, den = 1, 1
        for op, k in self.ops:
            if isinstance(k, float):
                if not k.is_integer():
                    return None
                k = int(k)
            if k == 0:
                return None
            if op in ("idiv", "div"):
                den *= k
            else:
                num *= k
        if den < 0:
            num, den = -num, -den
        from math import gcd
        g = gcd(num, den)
        return num // g, den // g

    def _exact(self, mode):
        from .core import int_divmod_const
        num, den = self._scale()
        t = self.x.e * num
        if den == 1:
            return SInt(t)
        q, r = int_divmod_const(t, den)  # floor
        if mode == "floor":
            return SInt(q)
        if mode == "trunc":
            return SInt(z3.If(z3.And(t < 0, r != 0), q + 1, q))
        # round half to even
        par = int_divmod_const(q, 2)[1]
        up = z3.Or(2 * r > den, z3.And(2 * r == den, par == 1))
        return SInt(z3.If(up, q + 1, q))

    def concrete(self, x0, mode):
        """the island evaluated by CPython itself"""
        import math
        v = None
        for op, k in self.ops:
            if op == "idiv":
                v = x0 / k
            elif op == "mul":
                v = v * k
            else:
                v = v / k
        return {"trunc": int, "round": round, "floor": math.floor}[mode](v)

    def _bounds(self):
        """tightest [lo, hi] for x implied by the path condition (binary search, QF_LIA)"""
        ctx = cur()
        x = self.x.e
        B = 1 << 63

        def holds(c):
            return ctx.check(z3.Not(c)) == z3.unsat
        if not holds(z3.And(x >= -B, x < B)):
            return None
        lo, hi = -B, B - 1
        a, b = lo, hi  # smallest hi with x <= hi
        while a < b:
            mid = (a + b) // 2
            if holds(x <= mid):
                b = mid
            else:
                a = mid + 1
        hi = a
        a, b = lo, hi
        while a < b:
            mid = (a + b + 1) // 2
            if holds(x >= mid):
                a = mid
            else:
                b = mid - 1
        return a, hi

    def _final(self, mode):
        key = (self.ops, mode)
        ctx = cur()
        x = self.x.e
        legacy = Ratio.LEMMAS.get(self.c) if (len(self.ops) == 1 and mode == "trunc") else None
        ranges = list(Ratio.PROVEN.get(key, [])) + ([legacy] if legacy else [])
        for lo, hi in ranges:
            if ctx.check(z3.Not(z3.And(x >= lo, x <= hi))) == z3.unsat:
                Ratio.USED.add((self.ops, mode, lo, hi))
                return self._exact(mode)
        for x0 in Ratio.REFUTED.get(key, []):
            if ctx.fork(x == x0):
                _used(f"float island {self.ops}->{mode}: differs from exact arithmetic; counterexample instance x={x0} evaluated by CPython")
                return SInt(z3.IntVal(self.concrete(x0, mode)))
        if key in Ratio.REFUTED:
            raise Unsupported(f"float island {self.ops}->{mode} is not exact arithmetic; only its counterexample instance is explored")
        if self._scale() is None:
            raise Unsupported(f"float island {self.ops} with a non-integer constant")
        bnd = self._bounds()
        if bnd is None:
            raise Unsupported(f"float island {self.ops}: x is not bounded by 64 bits on this path")
        _demand(key, bnd)
        if ranges:
            lo, hi = ranges[0]
            raise Unsupported(f"int(x / {self.c}): x not within the lemma's range [{lo}, {hi}] on this path")
        raise Unsupported(f"no float lemma yet for {self.ops}->{mode} on [{bnd[0]}, {bnd[1]}] (demanded)")

    def _sx_int(self):
        return self._final("trunc")

    def _sx_round(self):
        return self._final("round")

    def _sx_floor(self):
        return self._final("floor")

    def __float__(self):
        raise Unsupported("float value of a symbolic ratio")


def _demand(key, bnd):
    import json, os
    p = os.environ.get("VF_DEMANDS")
    if not p:
        return
    ops, mode = key
    with open(p, "a") as f:
        f.write(json.dumps(dict(ops=[list(o) for o in ops], mode=mode, lo=bnd[0], hi=bnd[1])) + "\n")


def m_round(x, nd=None):
    if isinstance(x, Ratio):
        if nd is not None:
            raise Unsupported("round(float island, ndigits)")
        return x._sx_round()
    if isinstance(x, SInt) and nd is None:
        return x
    if is_sym(x):
        raise Unsupported(f"round() of {type(x).__name__}")
    return round(x) if nd is None else round(x, nd)


def _truediv(self, o):
    if not self.bv and isinstance(o, int) and not isinstance(o, bool) and o > 0:
        return Ratio(self, o)
    return SFloat.lift(self) / SFloat.lift(o)


SInt.__truediv__ = _truediv


class STimedelta:
    _sx_symbolic = True
    _sx_types = (_dt.timedelta,)

    def __init__(self, us):
        self.us = I(us)  # total microseconds

    @property
    def days(self):
        return self.us // US_DAY

    @property
    def seconds(self):
        return (self.us % US_DAY) // 10**6

    @property
    def microseconds(self):
        return self.us % 10**6

    def __radd__(self, o):
        return SDatetime.lift(o) + self

    def total_seconds(self):
        _used("timedelta.total_seconds() = total microseconds / 10**6 (exact int/int division, correctly rounded)")
        return Ratio(self.us, 10**6)


class SDate:
    _sx_symbolic = True
    _sx_types = (_dt.date,)

    def __init__(self, ordinal):
        self.ordinal = I(ordinal)

    def toordinal(self):
        return self.ordinal


class STime:
    _sx_symbolic = True
    _sx_types = (_dt.time,)

    def __init__(self, h, m, s, us):
        self.hour, self.minute, self.second, self.microsecond = I(h), I(m), I(s), I(us)
        self.tzinfo = None


class SDatetime:
    """naive wall-clock fields as microseconds since 0001-01-01T00:00 plus an optional UTC offset
    in microseconds (None = naive)"""

    _sx_symbolic = True
    _sx_types = (_dt.datetime, _dt.date)

    def __init__(self, wall_us, offset_us=None):
        self.wall = I(wall_us)
        self.offset = None if offset_us is None else I(offset_us)

    @staticmethod
    def lift(d):
        if isinstance(d, SDatetime):
            return d
        if isinstance(d, _dt.datetime):
            wall = ((d.toordinal() - 1) * 86400 + d.hour * 3600 + d.minute * 60 + d.second) * 10**6 + d.microsecond
            off = None
            if d.tzinfo is not None:
                off = d.utcoffset() // _dt.timedelta(microseconds=1)
            return SDatetime(wall, off)
        raise TypeError(f"not a datetime: {type(d)}")

    @property
    def tzinfo(self):
        return None if self.offset is None else "tz"

    @property
    def microsecond(self):
        return self.wall % 10**6

    def utc(self):
        return self.wall - self.offset

    def utcoffset(self):
        return None if self.offset is None else STimedelta(self.offset)

    def replace(self, tzinfo=None):
        if tzinfo is _dt.timezone.utc:
            return SDatetime(self.wall, 0)
        if tzinfo is None:
            return SDatetime(self.wall, None)
        raise Unsupported("replace with another tzinfo")

    def __sub__(self, o):
        o = SDatetime.lift(o)
        if (self.offset is None) != (o.offset is None):
            raise TypeError("can't subtract offset-naive and offset-aware datetimes")
        if self.offset is None:
            return STimedelta(self.wall - o.wall)
        return STimedelta(self.utc() - o.utc())

    def __rsub__(self, o):
        return SDatetime.lift(o) - self

    def __add__(self, td):
        if not isinstance(td, STimedelta):
            return NotImplemented
        w = self.wall + td.us
        # datetime range: years 1..9999
        if (w < 0) or (w >= MAXORD * US_DAY):
            raise OverflowError("date value out of range")
        return SDatetime(w, self.offset)

    def timetuple(self):
        return ("timetuple", self)

    def toordinal(self):
        return self.wall // US_DAY + 1


def m_timedelta(days=0, seconds=0, microseconds=0, milliseconds=0, minutes=0, hours=0, weeks=0):
    _used("datetime.timedelta(...) as total microseconds (exact integer arithmetic)")
    total = (I(days) * US_DAY + I(seconds) * 10**6 + I(microseconds) + I(milliseconds) * 1000
             + I(minutes) * 60 * 10**6 + I(hours) * 3600 * 10**6 + I(weeks) * 7 * US_DAY)
    # timedelta range: |days| <= 999999999
    if (total >= 10**9 * US_DAY) or (total <= -(10**9) * US_DAY):
        raise OverflowError("days out of range for timedelta")
    return STimedelta(total)


def m_time(hour=0, minute=0, second=0, microsecond=0, tzinfo=None):
    _used("datetime.time(h, m, s, us) with its range checks")
    for v, hi, nm in ((hour, 24, "hour"), (minute, 60, "minute"), (second, 60, "second"), (microsecond, 10**6, "microsecond")):
        if isinstance(v, (float, SFloat, Ratio)):
            raise TypeError("integer argument expected, got float")
        v = I(v)
        if (v < 0) or (v >= hi):
            raise ValueError(f"{nm} must be in 0..{hi - 1}")
    return STime(hour, minute, second, microsecond)


def m_fromordinal(n):
    _used("datetime.date.fromordinal / toordinal as inverse pair on 1..3652059")
    n = I(n)
    if n < 1:
        raise ValueError("ordinal must be >= 1")
    if n > MAXORD:
        raise OverflowError("year is out of range")  # CPython: ValueError 'year ... out of range'
    return SDate(n)


def m_mktime(tt):
    _used("time.mktime under TZ=UTC: seconds between the naive wall-clock fields and 1970-01-01 (glibc, no range limit within datetime's range)")
    if isinstance(tt, tuple) and tt and tt[0] == "timetuple":
        d = tt[1]
        secs = (d.wall // 10**6) - ((_dt.date(1970, 1, 1).toordinal() - 1) * 86400)
        return secs  # int(mktime(...)) is the identity on this value
    return _time.mktime(tt)


class SUUID:
    _sx_symbolic = True
    _sx_types = (_uuid.UUID,)

    def __init__(self, name):
        self.name = name

    def _sx_str(self):
        return SUUIDStr(self)


class SUUIDStr:
    _sx_symbolic = True
    _sx_types = (str,)

    def __init__(self, u):
        self.u = u


def m_UUID(x=None, *a, **k):
    _used("uuid.UUID(str(u)) == u (canonical text form; C/stdlib code trusted)")
    if isinstance(x, SUUIDStr):
        return x.u
    return _uuid.UUID(x, *a, **k)


def m_str(x="", *a):
    f = getattr(x, "_sx_str", None)
    if callable(f):
        return f()
    if f is True:
        return x
    if is_sym(x):
        raise Unsupported(f"str() of {type(x).__name__}")
    return str(x, *a)


# ---- Decimal ---------------------------------------------------------------------------------

class SDecimalIn:
    """input decimal: sign (0/1 symbolic), digits (list of symbolic digits, concrete count), exponent"""

    _sx_symbolic = True
    _sx_types = (_decimal.Decimal,)

    def __init__(self, sign, digits, exp):
        self.sign, self.digits, self.exp = sign, tuple(digits), exp

    def as_tuple(self):
        return (self.sign, self.digits, self.exp)


class SDecimalOut:
    """result of the read side: integer coefficient (after rounding to the context precision) and exponent"""

    _sx_symbolic = True
    _sx_types = (_decimal.Decimal,)

    def __init__(self, coeff, exp, inexact=False):
        self.coeff, self.exp, self.inexact = coeff, exp, inexact

    def scaleb(self, k, context=None):
        return SDecimalOut(self.coeff, self.exp + k, self.inexact)


class SContext:
    """decimal.Context with a symbolic precision: create_decimal(int) rounds half-even to prec digits"""

    def __init__(self, prec=28, **kw):
        self.prec = prec

    def create_decimal(self, n):
        _used("decimal.Context.create_decimal(int): exact when the integer has at most prec digits, else ROUND_HALF_EVEN")
        n = n if isinstance(n, SInt) else SInt(zint(n))
        p = concretize(self.prec, 1, 40)
        a = abs(n)
        lim = 10 ** p
        if a < lim:
            return SDecimalOut(n, 0)
        # number of digits (fork), then round half even
        nd = p + 1
        while not (a < 10 ** nd):
            nd += 1
            if nd > 60:
                raise Unsupported("huge integer")
        k = nd - p
        q = a // (10 ** k)
        r = a % (10 ** k)
        half = (10 ** k) // 2
        if (r > half) or ((r == half) and (q % 2 == 1)):
            q = q + 1
        coeff = q if not (n < 0) else -q
        return SDecimalOut(coeff, k, inexact=bool(r != 0))


CALL_MODELS.update({
    id(_dt.timedelta): m_timedelta,
    id(_dt.time): m_time,
    id(_time.mktime): m_mktime,
    id(_uuid.UUID): m_UUID,
    id(str): m_str,
    id(round): m_round,
})
_KEEP.extend([_dt.timedelta, _dt.time, _time.mktime, _uuid.UUID, str, round])

def m_from_bytes(data, byteorder="big", *, signed=False):
    _used("int.from_bytes (big/little endian, signed/unsigned)")
    from .models import SBytes
    from .core import WIDTH
    b = SBytes.lift(data)
    if b.has_blob():
        raise Unsupported("int.from_bytes of opaque bytes")
    ps = list(b.pieces)
    if byteorder == "little":
        ps.reverse()
    if not ps:
        return 0
    v = z3.BitVecVal(0, WIDTH)
    for x in ps:
        v = (v << 8) | zint(x)
    if signed:
        n = len(ps)
        v = z3.If((zint(ps[0]) & 0x80) != 0, v - z3.BitVecVal(1 << (8 * n), WIDTH), v)
    return SInt(z3.simplify(v))


METHOD_MODELS = {
    (id(_dt.date), "fromordinal"): m_fromordinal,
    (id(int), "from_bytes"): m_from_bytes,
}
