"""E1 front end: re-read a repo module's current source, rewrite the primitive
operations that Python would hand straight to C (calls, subscripts, in/is,
f-strings) into hook calls, and execute the result as a sibling module."""
import ast
import hashlib
import importlib
import inspect
import sys
import types

from . import hooks

HOOK = "__sx__"
_NO_REWRITE_CALLS = {"super", "locals", "globals", "vars", "eval", "exec"}


class Rewriter(ast.NodeTransformer):
    def __init__(self, havoc=()):
        # havoc: iterable of (function name, variable name): the variable is replaced by a
        # harness-controlled value right before the first for/while loop of that function
        # (loop cut for inductive-step obligations; a no-op unless the harness arms it)
        self.havoc = set(havoc)
        self._fn = []

    def visit_FunctionDef(self, node):
        self._fn.append(node.name)
        self.generic_visit(node)
        self._fn.pop()
        for (fn, var) in self.havoc:
            if fn == node.name:
                for i, st in enumerate(node.body):
                    if isinstance(st, (ast.For, ast.While)) and any(
                        isinstance(n, ast.Name) and n.id == var for n in ast.walk(st)
                    ):
                        # cut the last loop that mentions var
                        idx = i
                assign = ast.parse(f"{var} = {HOOK}.havoc({fn!r}, {var!r}, {var})").body[0]
                node.body.insert(idx, ast.copy_location(assign, node.body[idx]))
        return node

    def visit_Call(self, node):
        self.generic_visit(node)
        if isinstance(node.func, ast.Name) and node.func.id in _NO_REWRITE_CALLS:
            return node
        new = ast.Call(
            func=ast.Attribute(value=ast.Name(id=HOOK, ctx=ast.Load()), attr="call", ctx=ast.Load()),
            args=[node.func] + node.args,
            keywords=node.keywords,
        )
        return ast.copy_location(new, node)

    def visit_Subscript(self, node):
        self.generic_visit(node)
        if not isinstance(node.ctx, ast.Load):
            return node
        idx = node.slice
        if isinstance(idx, ast.Slice):
            idx = ast.Call(
                func=ast.Name(id="slice", ctx=ast.Load()),
                args=[x if x is not None else ast.Constant(value=None) for x in (idx.lower, idx.upper, idx.step)],
                keywords=[],
            )
        new = ast.Call(
            func=ast.Attribute(value=ast.Name(id=HOOK, ctx=ast.Load()), attr="getitem", ctx=ast.Load()),
            args=[node.value, idx],
            keywords=[],
        )
        return ast.copy_location(new, node)

    def visit_BinOp(self, node):
        self.generic_visit(node)
        # "literal format" % value: goes through a hook so that a symbolic value is formatted symbolically
        if isinstance(node.op, ast.Mod) and isinstance(node.left, ast.Constant) and isinstance(node.left.value, str):
            new = ast.Call(func=ast.Attribute(value=ast.Name(id=HOOK, ctx=ast.Load()), attr="strmod", ctx=ast.Load()),
                           args=[node.left, node.right], keywords=[])
            return ast.copy_location(new, node)
        return node

    def visit_Assign(self, node):
        self.generic_visit(node)
        # d[k] = v with a single subscript target goes through a hook, so that dictionaries can be keyed by
        # symbolic values (memo caches)
        if len(node.targets) == 1 and isinstance(node.targets[0], ast.Subscript) and not isinstance(node.targets[0].slice, ast.Slice):
            tg = node.targets[0]
            new = ast.Expr(ast.Call(
                func=ast.Attribute(value=ast.Name(id=HOOK, ctx=ast.Load()), attr="setitem", ctx=ast.Load()),
                args=[tg.value, tg.slice, node.value], keywords=[]))
            return ast.copy_location(new, node)
        return node

    def visit_Compare(self, node):
        self.generic_visit(node)
        names = {ast.In: "contains", ast.NotIn: "not_contains", ast.Is: "is_", ast.IsNot: "is_not"}
        if len(node.ops) == 1 and type(node.ops[0]) in names:
            new = ast.Call(
                func=ast.Attribute(value=ast.Name(id=HOOK, ctx=ast.Load()), attr=names[type(node.ops[0])], ctx=ast.Load()),
                args=[node.left, node.comparators[0]],
                keywords=[],
            )
            return ast.copy_location(new, node)
        return node

    def visit_JoinedStr(self, node):
        self.generic_visit(node)
        parts = []
        for v in node.values:
            if isinstance(v, ast.Constant):
                parts.append(v)
            else:  # FormattedValue
                spec = v.format_spec if v.format_spec is not None else ast.Constant(value=None)
                parts.append(ast.Tuple(elts=[v.value, ast.Constant(value=v.conversion), spec], ctx=ast.Load()))
        new = ast.Call(
            func=ast.Attribute(value=ast.Name(id=HOOK, ctx=ast.Load()), attr="fstr", ctx=ast.Load()),
            args=[ast.List(elts=parts, ctx=ast.Load())],
            keywords=[],
        )
        return ast.copy_location(new, node)


_instrumented = {}  # real module name -> instrumented module
_real_to_inst = {}  # id(real object) -> instrumented object
SOURCES = {}  # real module name -> (path, sha1)


HAVOC = {
    "fastavro._schema_common": [("rabin_fingerprint", "result")],
}


def instrument(modname):
    """Return the instrumented sibling of real module `modname` (cached per process)."""
    if modname in _instrumented:
        return _instrumented[modname]
    real = importlib.import_module(modname)
    path = inspect.getsourcefile(real)
    src = open(path).read()
    SOURCES[modname] = (path, hashlib.sha1(src.encode()).hexdigest())
    tree = ast.parse(src, filename=path)
    tree = Rewriter(HAVOC.get(modname, ())).visit(tree)
    ast.fix_missing_locations(tree)
    code = compile(tree, path, "exec")
    mod = types.ModuleType(modname)
    mod.__file__ = path
    mod.__package__ = real.__package__
    mod.__dict__[HOOK] = hooks
    mod.__dict__["__sx_real__"] = real
    exec(code, mod.__dict__)
    _instrumented[modname] = mod
    for name, v in real.__dict__.items():
        if isinstance(v, (types.FunctionType, type)) and getattr(v, "__module__", None) == modname:
            iv = mod.__dict__.get(name)
            if iv is not None and iv is not v:
                _real_to_inst[id(v)] = iv
    _relink()
    return mod


def fresh_instance(modname):
    """a further, private copy of an instrumented module with its own module-level state (not cached, not relinked:
    for self-contained modules only)"""
    instrument(modname)
    real = importlib.import_module(modname)
    path = inspect.getsourcefile(real)
    tree = Rewriter(HAVOC.get(modname, ())).visit(ast.parse(open(path).read(), filename=path))
    ast.fix_missing_locations(tree)
    mod = types.ModuleType(modname)
    mod.__file__ = path
    mod.__package__ = real.__package__
    mod.__dict__[HOOK] = hooks
    exec(compile(tree, path, "exec"), mod.__dict__)
    return mod


def _relink():
    for mod in _instrumented.values():
        d = mod.__dict__
        for name, v in list(d.items()):
            if id(v) in _real_to_inst and name not in ("__sx_real__",):
                d[name] = _real_to_inst[id(v)]
            elif isinstance(v, dict) and name.isupper() and v and all(
                isinstance(x, types.FunctionType) for x in v.values()
            ):
                if any(id(x) in _real_to_inst for x in v.values()):
                    d[name] = {k: _real_to_inst.get(id(x), x) for k, x in v.items()}


def function_sha(modname, qualname):
    """sha1 of the current source text of modname.qualname (for the evidence)."""
    real = importlib.import_module(modname)
    obj = real
    for part in qualname.split("."):
        obj = getattr(obj, part)
    try:
        return hashlib.sha1(inspect.getsource(obj).encode()).hexdigest()[:12]
    except Exception:
        return None
