"""E1 core: path exploration by re-execution, symbolic scalar values over z3.

Symbolic values reach the repo's own code through operator overloading and
through the hooks installed by vf.symex.rewrite.  CPython supplies control
flow; every truth test on a symbolic value calls Ctx.fork(), which asks z3
whether each side is feasible under the current path condition.
"""
import os
import time
import z3

# bit-vector width standing in for Python's unbounded int (no-overflow VCs make it faithful);
# a harness process may lower it when its values are small (VF_WIDTH, set before import)
WIDTH = int(os.environ.get("VF_WIDTH", "80"))


class EngineSignal(BaseException):
    """Base of path-steering signals; never caught by code under test
    (which catches Exception at most)."""


class Unsupported(EngineSignal):
    pass


class BoundExceeded(EngineSignal):
    pass


class Infeasible(EngineSignal):
    pass


class Ctx:
    """One exploration: a sequence of runs, each following a decision prefix."""

    current = None

    def __init__(self, max_paths=4000, max_decisions=4000, timeout_ms=60000, budget_s=600):
        self.budget_s = budget_s
        self.max_paths = max_paths
        self.max_decisions = max_decisions
        self.timeout_ms = timeout_ms
        self.queries = 0
        self.solver_time = 0.0
        self.paths = 0
        self.unknowns = 0
        self.inputs = {}  # name -> z3 term (symbolic mode)
        self._fresh = 0

    # -- per-run state -------------------------------------------------
    def _begin(self, prefix):
        self.prefix = prefix
        self.trace = []  # (taken, has_alt)
        self.pc = []
        self.vcs = []
        self.solver = z3.Solver()
        self.solver.set("timeout", self.timeout_ms)
        self.inputs = {}
        self._fresh = 0

    def fresh(self, base):
        self._fresh += 1
        return f"{base}!{self._fresh}"

    def check(self, *assumptions):
        t = time.time()
        r = self.solver.check(*assumptions)
        self.solver_time += time.time() - t
        self.queries += 1
        if r == z3.unknown:
            self.unknowns += 1
        return r

    def assume(self, cond):
        cond = z3.simplify(cond) if not isinstance(cond, bool) else z3.BoolVal(cond)
        self.pc.append(cond)
        self.solver.add(cond)
        if self.check() != z3.sat:
            raise Infeasible()

    def fork(self, cond, payload=None):
        """Return the branch taken for z3 Bool `cond` on this run."""
        cond = z3.simplify(cond)
        if z3.is_true(cond):
            return True
        if z3.is_false(cond):
            return False
        i = len(self.trace)
        if i >= self.max_decisions:
            raise BoundExceeded("decision bound")
        if i < len(self.prefix):
            taken, has_alt = self.prefix[i][:2]
        else:
            rt = self.check(cond)
            rf = self.check(z3.Not(cond))
            if rt == z3.unknown or rf == z3.unknown:
                raise Unsupported("solver returned unknown at a branch")
            ft, ff = rt == z3.sat, rf == z3.sat
            if ft:
                taken, has_alt = True, ff
            elif ff:
                taken, has_alt = False, False
            else:
                raise Infeasible()
        self.trace.append((taken, has_alt, payload))
        c = cond if taken else z3.Not(cond)
        self.pc.append(c)
        self.solver.add(c)
        return taken

    def add_vc(self, cond):
        self.vcs.append(cond)

    def model(self, *extra):
        if self.check(*extra) == z3.sat:
            return self.solver.model()
        return None


def explore(fn, ctx=None):
    """Run fn() along every feasible path.  fn reads Ctx.current.
    Yields (kind, value) per path: ('ok', result) | ('unsupported', msg) | ('bound', msg)."""
    ctx = ctx or Ctx()
    prefix = []
    results = []
    t0 = time.time()
    while True:
        if time.time() - t0 > ctx.budget_s:
            results.append(("bound", f"time budget of {ctx.budget_s}s for this harness"))
            break
        ctx._begin(prefix)
        Ctx.current = ctx
        try:
            r = fn()
            results.append(("ok", r))
        except Infeasible:
            results.append(("infeasible", None))
        except Unsupported as e:
            results.append(("unsupported", str(e)))
        except BoundExceeded as e:
            results.append(("bound", str(e)))
        finally:
            Ctx.current = None
        ctx.paths += 1
        # backtrack
        tr = ctx.trace
        while tr and not (tr[-1][0] and tr[-1][1]):
            tr.pop()
        if not tr:
            break
        tr[-1] = (False, False, tr[-1][2])
        prefix = list(tr)
        if ctx.paths >= ctx.max_paths:
            results.append(("bound", "path bound"))
            break
    return results, ctx


# ---------------------------------------------------------------------
# symbolic scalars
# ---------------------------------------------------------------------

def cur():
    c = Ctx.current
    if c is None:
        raise RuntimeError("no active symbolic context")
    return c


def is_sym(x):
    return isinstance(x, (SInt, SBool, SFloat)) or getattr(x, "_sx_symbolic", False)


class SBool:
    __slots__ = ("e",)
    _sx_symbolic = True
    _sx_types = (bool,)

    def __init__(self, e):
        self.e = e

    def __bool__(self):
        return cur().fork(self.e)

    def __and__(self, o):
        return SBool(z3.And(self.e, zbool(o)))

    __rand__ = __and__

    def __or__(self, o):
        return SBool(z3.Or(self.e, zbool(o)))

    __ror__ = __or__

    def __invert__(self):
        return SBool(z3.Not(self.e))

    def __eq__(self, o):
        return SBool(self.e == zbool(o))

    def __ne__(self, o):
        return SBool(self.e != zbool(o))

    def __hash__(self):
        raise Unsupported("hash of symbolic bool")

    # a bool is an int: order and arithmetic go through the 0/1 value
    def _i(self):
        return SInt(zint(self))

    def __lt__(self, o):
        return self._i() < o

    def __le__(self, o):
        return self._i() <= o

    def __gt__(self, o):
        return self._i() > o

    def __ge__(self, o):
        return self._i() >= o

    def __add__(self, o):
        return self._i() + o

    __radd__ = __add__

    def __int__(self):
        return 1 if bool(self) else 0

    __index__ = __int__

    def __repr__(self):
        return f"SBool({self.e})"


def zbool(x):
    if isinstance(x, SBool):
        return x.e
    if isinstance(x, bool):
        return z3.BoolVal(x)
    if z3.is_bool(x):
        return x
    raise Unsupported(f"cannot lift {type(x)} to Bool")


def _isbv(e):
    return z3.is_bv(e)


def zint(x, like=None):
    """Lift a Python/SInt value to a z3 term of the sort of `like` (BV WIDTH default)."""
    if isinstance(x, SInt):
        return x.e
    if isinstance(x, bool):
        x = int(x)
    if isinstance(x, int):
        if like is not None and not _isbv(like):
            return z3.IntVal(x)
        if not (-(1 << (WIDTH - 1)) <= x < (1 << (WIDTH - 1))):
            raise Unsupported(f"constant {x} exceeds engine width {WIDTH}")
        return z3.BitVecVal(x, WIDTH)
    if isinstance(x, SBool):
        if like is not None and not _isbv(like):
            return z3.If(x.e, z3.IntVal(1), z3.IntVal(0))
        return z3.If(x.e, z3.BitVecVal(1, WIDTH), z3.BitVecVal(0, WIDTH))
    raise TypeError(f"unsupported operand for symbolic int: {type(x).__name__}")


def _intlike(o):
    return isinstance(o, (int, SInt, SBool)) and not isinstance(o, float)


class SInt:
    """Symbolic Python int.  BV mode: WIDTH-bit two's complement with
    no-overflow VCs recorded on the context.  Arith mode: z3 Int."""

    __slots__ = ("e",)
    _sx_symbolic = True
    _sx_types = (int,)

    def __init__(self, e):
        self.e = e

    @property
    def bv(self):
        return _isbv(self.e)

    # arithmetic ---------------------------------------------------------
    def _bin(self, o, op, rev=False):
        if isinstance(o, (float, SFloat)):
            a, b = (o, self) if rev else (self, o)
            return getattr(SFloat.lift(a), op)(SFloat.lift(b))
        if not _intlike(o):
            return NotImplemented
        a, b = self.e, zint(o, self.e)
        if rev:
            a, b = b, a
        return a, b

    def __add__(self, o, rev=False):
        r = self._bin(o, "__add__", rev)
        if not isinstance(r, tuple):
            return r
        a, b = r
        if _isbv(a):
            cur().add_vc(z3.And(z3.BVAddNoOverflow(a, b, True), z3.BVAddNoUnderflow(a, b)))
        return SInt(z3.simplify(a + b))

    def __radd__(self, o):
        return self.__add__(o, True)

    def __sub__(self, o, rev=False):
        r = self._bin(o, "__sub__", rev)
        if not isinstance(r, tuple):
            return r
        a, b = r
        if _isbv(a):
            cur().add_vc(z3.And(z3.BVSubNoOverflow(a, b), z3.BVSubNoUnderflow(a, b, True)))
        return SInt(z3.simplify(a - b))

    def __rsub__(self, o):
        return self.__sub__(o, True)

    def __mul__(self, o, rev=False):
        r = self._bin(o, "__mul__", rev)
        if not isinstance(r, tuple):
            return r
        a, b = r
        if _isbv(a):
            cur().add_vc(z3.And(z3.BVMulNoOverflow(a, b, True), z3.BVMulNoUnderflow(a, b)))
        return SInt(z3.simplify(a * b))

    def __rmul__(self, o):
        return self.__mul__(o, True)

    def __neg__(self):
        if self.bv:
            cur().add_vc(self.e != z3.BitVecVal(1 << (WIDTH - 1), WIDTH))
        return SInt(z3.simplify(-self.e))

    def __pos__(self):
        return self

    def __abs__(self):
        return -self if (self < 0) else self

    def _divmod(self, o, rev=False):
        r = self._bin(o, "__floordiv__", rev)
        if not isinstance(r, tuple):
            raise Unsupported("float divmod")
        a, b = r
        if cur().fork(b == 0):
            raise ZeroDivisionError("integer division or modulo by zero")
        if _isbv(a):
            q = z3.SDiv(a, b) if hasattr(z3, "SDiv") else a / b
            rm = z3.SRem(a, b)
            adj = z3.And(rm != 0, (rm < 0) != (b < 0))
            q2 = z3.If(adj, q - 1, q)
            r2 = z3.If(adj, rm + b, rm)
            return SInt(z3.simplify(q2)), SInt(z3.simplify(r2))
        # z3 Int, concrete positive divisor: name quotient and remainder by their defining
        # axioms (a = b*q + r, 0 <= r < b); much easier for the solver than nested div/mod terms
        bs = z3.simplify(b)
        if z3.is_int_value(bs) and bs.as_long() > 0:
            q, rm = int_divmod_const(a, bs.as_long())
            return SInt(q), SInt(rm)
        # z3 Int: div is floor for positive divisor, ceil for negative -> normalise
        q = a / b
        rm = a % b
        # z3: a = b*q + rm with 0 <= rm < |b|.  Python wants sign(rm)=sign(b).
        adj = z3.And(b < 0, rm != 0)
        q2 = z3.If(adj, q - 1, q)
        r2 = z3.If(adj, rm + b, rm)
        return SInt(z3.simplify(q2)), SInt(z3.simplify(r2))

    def __floordiv__(self, o):
        if isinstance(o, (float, SFloat)):
            raise Unsupported("float floordiv")
        if not _intlike(o):
            return NotImplemented
        return self._divmod(o)[0]

    def __rfloordiv__(self, o):
        if not _intlike(o):
            return NotImplemented
        return self._divmod(o, True)[0]

    def __mod__(self, o):
        if isinstance(o, (float, SFloat)):
            raise Unsupported("float mod")
        if not _intlike(o):
            return NotImplemented
        return self._divmod(o)[1]

    def __rmod__(self, o):
        if not _intlike(o):
            return NotImplemented
        return self._divmod(o, True)[1]

    def __divmod__(self, o):
        return self._divmod(o)

    def __truediv__(self, o):
        return SFloat.lift(self) / SFloat.lift(o)

    def __rtruediv__(self, o):
        return SFloat.lift(o) / SFloat.lift(self)

    def __pow__(self, o, mod=None):
        if mod is not None:
            raise Unsupported("3-arg pow")
        k = concretize(o, 0, 64)
        if k < 0:
            raise Unsupported("negative exponent")
        r = 1
        for _ in range(k):
            r = self * r
        return r

    def __rpow__(self, o):
        k = concretize(self, 0, 200)
        return o ** k

    # bit operations -------------------------------------------------------
    def _need_bv(self):
        if not self.bv:
            raise Unsupported("bit operation on arith-mode integer")

    def __lshift__(self, o):
        self._need_bv()
        k = concretize(o, 0, WIDTH)
        if k < 0:
            raise ValueError("negative shift count")
        r = self.e << k
        cur().add_vc((r >> k) == self.e)
        return SInt(z3.simplify(r))

    def __rlshift__(self, o):
        k = concretize(self, 0, WIDTH)
        return o << k

    def __rshift__(self, o):
        self._need_bv()
        k = concretize(o, 0, 10 * WIDTH)
        if k < 0:
            raise ValueError("negative shift count")
        return SInt(z3.simplify(self.e >> min(k, WIDTH - 1)))

    def __rrshift__(self, o):
        k = concretize(self, 0, 10 * WIDTH)
        return o >> k

    def __and__(self, o):
        if not _intlike(o):
            return NotImplemented
        self._need_bv()
        return SInt(z3.simplify(self.e & zint(o)))

    __rand__ = __and__

    def __or__(self, o):
        if not _intlike(o):
            return NotImplemented
        self._need_bv()
        return SInt(z3.simplify(self.e | zint(o)))

    __ror__ = __or__

    def __xor__(self, o):
        if not _intlike(o):
            return NotImplemented
        self._need_bv()
        return SInt(z3.simplify(self.e ^ zint(o)))

    __rxor__ = __xor__

    def __invert__(self):
        self._need_bv()
        return SInt(z3.simplify(~self.e))

    # comparisons ----------------------------------------------------------
    def _cmp(self, o, f):
        if isinstance(o, (float, SFloat)):
            return getattr(SFloat.lift(self), f)(SFloat.lift(o))
        if not _intlike(o):
            return NotImplemented
        a, b = self.e, zint(o, self.e)
        return SBool(z3.simplify({"lt": a < b, "le": a <= b, "gt": a > b, "ge": a >= b,
                                  "eq": a == b, "ne": a != b}[f.strip("_")]))

    def __lt__(self, o):
        return self._cmp(o, "__lt__")

    def __le__(self, o):
        return self._cmp(o, "__le__")

    def __gt__(self, o):
        return self._cmp(o, "__gt__")

    def __ge__(self, o):
        return self._cmp(o, "__ge__")

    def __eq__(self, o):
        r = self._cmp(o, "__eq__")
        return False if r is NotImplemented else r

    def __ne__(self, o):
        r = self._cmp(o, "__ne__")
        return True if r is NotImplemented else r

    def __hash__(self):
        v = z3.simplify(self.e)
        if z3.is_bv_value(v):
            return hash(v.as_signed_long())
        if z3.is_int_value(v):
            return hash(v.as_long())
        raise Unsupported("hash of symbolic int")

    def __bool__(self):
        return cur().fork(self.e != zint(0, self.e))

    def __index__(self):
        return concretize(self, None, None)

    __int__ = __index__

    def __float__(self):
        raise Unsupported("float() of symbolic int must go through the call hook")

    def bit_length(self):
        """symbolic: number of k in 0..WIDTH-2 with |self| >= 2^k (no forking)"""
        self._need_bv()
        a = z3.If(self.e < 0, -self.e, self.e)
        n = z3.BitVecVal(0, WIDTH)
        for k in range(WIDTH - 1):
            n = n + z3.If(z3.UGE(a, z3.BitVecVal(1 << k, WIDTH)), z3.BitVecVal(1, WIDTH), z3.BitVecVal(0, WIDTH))
        return SInt(n)

    def to_bytes(self, length=1, byteorder="big", *, signed=False):
        from .models import SBytes
        self._need_bv()
        n = concretize(length, 0, 64)
        lo, hi = (-(1 << (8 * n - 1)), (1 << (8 * n - 1)) - 1) if signed else (0, (1 << (8 * n)) - 1)
        if n == 0:
            if self != 0:
                raise OverflowError("int too big to convert")
            return SBytes([])
        if (self < lo) or (self > hi):
            raise OverflowError("int too big to convert")
        bs = [SInt(z3.simplify(z3.ZeroExt(WIDTH - 8, z3.Extract(8 * i + 7, 8 * i, self.e)))) for i in range(n)]
        if byteorder == "big":
            bs.reverse()
        return SBytes(bs)

    def __format__(self, spec):
        return format(concretize(self, None, None), spec)

    def __repr__(self):
        return f"SInt({self.e})"


def int_divmod_const(a, c):
    """fresh (q, r) with a == c*q + r and 0 <= r < c, cached per (term, divisor) on the run"""
    ctx = cur()
    cache = getattr(ctx, "_divcache", None)
    if cache is None or getattr(ctx, "_divcache_solver", None) is not ctx.solver:
        cache = ctx._divcache = {}
        ctx._divcache_solver = ctx.solver
    a = z3.simplify(a)
    key = (a.get_id(), c)
    if key in cache:
        return cache[key][1:]
    if z3.is_int_value(a):
        v = a.as_long()
        res = (z3.IntVal(v // c), z3.IntVal(v % c))
        cache[key] = (a,) + res
        return res
    q = z3.Int(ctx.fresh("q"))
    r = z3.Int(ctx.fresh("r"))
    ax = z3.And(a == c * q + r, r >= 0, r < c)
    ctx.solver.add(ax)
    ctx.pc.append(ax)
    cache[key] = (a, q, r)
    return q, r


def concretize(x, lo=None, hi=None, cap=300):
    """Return a concrete int for x, forking over every feasible value."""
    if isinstance(x, bool):
        return int(x)
    if isinstance(x, int):
        return x
    if isinstance(x, SBool):
        return 1 if cur().fork(x.e) else 0
    if not isinstance(x, SInt):
        raise TypeError(f"'{type(x).__name__}' object cannot be interpreted as an integer")
    c = cur()
    v = z3.simplify(x.e)
    if z3.is_bv_value(v):
        return v.as_signed_long()
    if z3.is_int_value(v):
        return v.as_long()
    for _ in range(cap):
        # the candidate value is recorded in the trace so that re-execution
        # along a prefix proposes the same candidates in the same order
        i = len(c.trace)
        if i < len(c.prefix):
            v = c.prefix[i][2]
        else:
            m = c.model()
            if m is None:
                raise Infeasible()
            mv = m.eval(x.e, model_completion=True)
            v = mv.as_signed_long() if z3.is_bv_value(mv) else mv.as_long()
        if c.fork(x.e == zint(v, x.e), payload=v):
            return v
    raise BoundExceeded("concretize: too many values")


RNE = z3.RNE()
F64 = z3.Float64()
F32 = z3.Float32()


class SFloat:
    """Symbolic Python float (IEEE double, round-to-nearest-even)."""

    __slots__ = ("e",)
    _sx_symbolic = True
    _sx_types = (float,)

    def __init__(self, e):
        self.e = e

    @staticmethod
    def lift(x):
        if isinstance(x, SFloat):
            return x
        if isinstance(x, bool):
            x = int(x)
        if isinstance(x, float):
            return SFloat(z3.FPVal(x, F64))
        if isinstance(x, int):
            return SFloat(z3.FPVal(float(x), F64))
        if isinstance(x, SInt):
            if x.bv:
                return SFloat(z3.fpSignedToFP(RNE, x.e, F64))
            return SFloat(z3.fpToFP(RNE, z3.ToReal(x.e), F64))
        raise TypeError(f"cannot lift {type(x)} to float")

    def _b(self, o):
        return SFloat.lift(o).e

    def __add__(self, o):
        return SFloat(z3.fpAdd(RNE, self.e, self._b(o)))

    __radd__ = __add__

    def __sub__(self, o):
        return SFloat(z3.fpSub(RNE, self.e, self._b(o)))

    def __rsub__(self, o):
        return SFloat(z3.fpSub(RNE, self._b(o), self.e))

    def __mul__(self, o):
        return SFloat(z3.fpMul(RNE, self.e, self._b(o)))

    __rmul__ = __mul__

    def __truediv__(self, o):
        b = self._b(o)
        if cur().fork(z3.fpIsZero(b)):
            raise ZeroDivisionError("float division by zero")
        return SFloat(z3.fpDiv(RNE, self.e, b))

    def __rtruediv__(self, o):
        return SFloat.lift(o).__truediv__(self)

    def __neg__(self):
        return SFloat(z3.fpNeg(self.e))

    def __lt__(self, o):
        return SBool(z3.fpLT(self.e, self._b(o)))

    def __le__(self, o):
        return SBool(z3.fpLEQ(self.e, self._b(o)))

    def __gt__(self, o):
        return SBool(z3.fpGT(self.e, self._b(o)))

    def __ge__(self, o):
        return SBool(z3.fpGEQ(self.e, self._b(o)))

    def __eq__(self, o):
        if not isinstance(o, (int, float, SInt, SFloat)):
            return False
        return SBool(z3.fpEQ(self.e, self._b(o)))

    def __ne__(self, o):
        if not isinstance(o, (int, float, SInt, SFloat)):
            return True
        return SBool(z3.Not(z3.fpEQ(self.e, self._b(o))))

    def __hash__(self):
        raise Unsupported("hash of symbolic float")

    def __bool__(self):
        return cur().fork(z3.Not(z3.fpIsZero(self.e)))

    def __float__(self):
        raise Unsupported("float() of symbolic float must go through the call hook")

    def __repr__(self):
        return f"SFloat({self.e})"


# convenient constructors used by harnesses ----------------------------------

def sym_int(name, lo=None, hi=None, arith=False):
    c = cur()
    e = z3.Int(name) if arith else z3.BitVec(name, WIDTH)
    c.inputs[name] = e
    if lo is not None:
        c.solver.add(e >= zint(lo, e))
        c.pc.append(e >= zint(lo, e))
    if hi is not None:
        c.solver.add(e <= zint(hi, e))
        c.pc.append(e <= zint(hi, e))
    return SInt(e)


def sym_bool(name):
    c = cur()
    e = z3.Bool(name)
    c.inputs[name] = e
    return SBool(e)


def sym_float(name):
    c = cur()
    e = z3.FP(name, F64)
    c.inputs[name] = e
    return SFloat(e)
