"""Unwinding-assertion for the size bounds of the structural checks: the explored collections, record lists and
operation histories are short (<= 4).  A comparison in the code under test between the size of a container (len(...),
a counter attribute) and an integer literal larger than the explored sizes is behaviour the bounded exploration cannot
reach; such thresholds are reported so that the obligation is inconclusive instead of silently passing."""
import ast
import importlib
import inspect


def _is_sizeish(n):
    if isinstance(n, ast.Call) and isinstance(n.func, ast.Name) and n.func.id == "len":
        return True
    if isinstance(n, ast.Attribute) and any(k in n.attr.lower() for k in ("count", "size", "len", "num", "depth", "level")):
        return True
    if isinstance(n, ast.Name) and any(k in n.id.lower() for k in ("count", "size", "len", "num", "depth", "level")):
        return True
    return False


def size_thresholds(modules, bound):
    """[(module, function, line, literal)] for comparisons size <op> literal with literal > bound"""
    out = []
    for modname in modules:
        mod = importlib.import_module(modname)
        try:
            src = open(inspect.getsourcefile(mod)).read()
        except Exception:
            continue
        tree = ast.parse(src)
        funcs = {}
        for node in ast.walk(tree):
            if isinstance(node, (ast.FunctionDef, ast.AsyncFunctionDef)):
                for sub in ast.walk(node):
                    funcs[id(sub)] = node.name
        for node in ast.walk(tree):
            if isinstance(node, ast.Compare) and len(node.ops) == 1 and isinstance(
                    node.ops[0], (ast.Lt, ast.LtE, ast.Gt, ast.GtE, ast.Eq, ast.NotEq)):
                a, b = node.left, node.comparators[0]
                for x, y in ((a, b), (b, a)):
                    val = None
                    if isinstance(y, ast.Constant) and isinstance(y.value, int) and not isinstance(y.value, bool):
                        val = y.value
                    elif isinstance(y, ast.Name) and isinstance(getattr(mod, y.id, None), int) and not isinstance(
                            getattr(mod, y.id), bool):
                        val = getattr(mod, y.id)  # a module-level integer constant
                    if _is_sizeish(x) and val is not None and val > bound:
                        out.append((modname, funcs.get(id(node), "<module>"), node.lineno, val))
    return out


def report(run, modules, bound, what):
    """obligation: no size threshold beyond the explored sizes in the given modules (inconclusive when one is found)"""
    ths = size_thresholds(modules, bound)
    if not ths:
        run.obligation("bounds.no_size_threshold_beyond_the_bound", "discharged",
                       f"no comparison of a container size with an integer constant > {bound} in {', '.join(modules)} ({what})", paths=1)
    for (mod, fn, line, lit) in ths:
        run.obligation(f"bounds.threshold.{mod.split('.')[-1]}.{fn}.{lit}", "inconclusive",
                       f"size threshold {lit} at {mod}:{line} ({fn}) lies beyond the explored sizes ({what})", paths=1)
    return ths
