"""Regenerates /verif/MANIFEST.json from the table below (run by hand after adding a property)."""
import json

TECH_E1 = "symbolic execution of the repo's current source (own AST-instrumented executor) + z3 per-path unsat queries"
TECH_E2 = "CrossHair symbolic execution of the real structural code over token streams; counterexamples replayed on real bytes"

P = {
 "C01": ("Bounded symbolic model checking in two layers: (1) E1 executes the real BinaryEncoder/BinaryDecoder source symbolically and proves decode(encode v)=v and exact consumption for every value of every primitive (z3, all paths); (2) CrossHair executes the real schemaless_writer/schemaless_reader over token streams for each schema of the stated family with the datum symbolic, compared with an independent normalisation oracle.",
         "Trusted: z3, CrossHair; the struct/UTF-8 models and token stand-ins listed in the evidence (each validated against CPython/real bytes on witnesses every run). Bounds: schema family F, collections <= 2/3 elements at layer 2.",
         TECH_E1 + "; " + TECH_E2),
 "C02": ("Bounded symbolic model checking: every byte written by each primitive encoder is proved equal to an SMT-level statement of the Avro specification for all values (E1); the structural writer's token sequence is proved identical to an independent specification encoder along the branches it selected, each branch checked against an independent conformance predicate (CrossHair, schema family F).",
         "Trusted: z3, CrossHair, stubs listed in evidence. Bounds as C01.", TECH_E1 + "; " + TECH_E2),
 "C03": ("Bounded symbolic model checking: E1 proves that the real read_long accepts every well-formed varint (minimal or not) with exact consumption, and that every proper prefix of every primitive encoding raises; CrossHair drives the real block iterator/skip functions over token streams with a symbolic block partition (positive and negative-count blocks), symbolic out-of-range indices and symbolic cut points against an independent decoder.",
         "Trusted: z3, CrossHair, token stand-ins. Bounds: <= 3 items, <= 3 blocks per array/map, schema family F.", TECH_E1 + "; " + TECH_E2),
 "C14": ("Bounded symbolic model checking with an inductive loop cut: init, one table-driven step from an arbitrary 64-bit state and byte against the bitwise CRC-64-AVRO definition, and the output formatting are proved on the real rabin_fingerprint source (z3 QF_BV) - covering every input length by induction; algorithm dispatch is explored for every advertised name with hashlib.new as a recording stub.",
         "Trusted: z3; hashlib digests themselves (C code) are outside; loop-cut soundness argument stated in evidence.", TECH_E1 + " with a havoc loop cut (inductive step)"),
 "C09": ("Bounded symbolic model checking: CrossHair executes the real write_union/_validate*/read_union code over token streams for every union schema of the stated family with the datum, the hint placement, reader options and disable_tuple_notation symbolic; the written index at every union position is compared with an independent statement of the branch rule, and the read-with-names/write-back closure is checked token for token.",
         "Trusted: CrossHair/z3, token stand-ins (justified by the E1 token contract). Where the statement leaves the branch open (datum conforming to both a record and a non-record branch) nothing is asserted.", TECH_E2),
 "C10": ("Bounded symbolic model checking: CrossHair executes the real validate/validate_many/_validate*/Writer(validator=True)/write_data code with (a) symbolic conforming data and (b) seeded base data carrying one mutation at a symbolic position with a symbolic wrong-typed replacement or a deleted field; results are compared with an independent conformance predicate written from the property's wording; leaf validators are proved for every int by E1.",
         "Trusted: CrossHair/z3, token stand-ins. ValidationError text formatting makes CrossHair enumerate formatted values, so int/bytes leaves come from pools including the range extremes (all ints: E1 obligations).", TECH_E2 + "; " + TECH_E1),
}

NA = {}


def main():
    checks = []
    for pid in sorted(P):
        text, note, tech = P[pid]
        checks.append({
            "property_id": pid,
            "quick_cmd": f"bin/check {pid} --tier quick",
            "thorough_cmd": f"bin/check {pid} --tier thorough",
            "evidence_file": f"/verif/evidence/{pid}.json",
            "replay_cmd_template": f"bin/check {pid} --replay {{path}}",
            "engine": "vf",
            "level_claimed": {"category": "model_checking", "text": text, "design_ref": f"DESIGN.md section 5, {pid}"},
            "level_note": note,
            "technique": tech,
        })
    na = []
    for i in range(1, 21):
        pid = f"C{i:02d}"
        if pid not in P:
            na.append({"property_id": pid, "reason": NA.get(pid, "check not built yet in this revision (work in progress; see DESIGN.md section 5 for the plan)")})
    m = {
        "version": 1,
        "setup_cmd": "bash /verif/vf/env.sh",
        "hooks": {"guard": "FASTAVRO_VERIF",
                  "enable": "no source hooks: every stub is injected by rebinding module globals in the analysing process",
                  "baseline_off_cmd": "cd /repo && /venv/bin/python -m pytest -ra -q -p no:cacheprovider --timeout=900 --continue-on-collection-errors",
                  "source_commits": [], "add_only": True},
        "engines": [{"name": "vf", "path": "/verif/vf", "serves_properties": sorted(P),
                     "kind_free_text": "E1: own symbolic executor of the repo's Python source over z3; E2: CrossHair over token streams; E3: z3 schedule encoder"}],
        "checks": checks,
        "notes": "All checks: bin/check <id> [--tier quick|thorough]; see DESIGN.md.",
        "not_applicable": na,
    }
    json.dump(m, open("/verif/MANIFEST.json", "w"), indent=1)


if __name__ == "__main__":
    main()
