"""bin/check entry point: check <property-id> [--tier quick|thorough] [--replay path]"""
import argparse
import importlib
import os
import subprocess
import sys
import traceback

from .report import Run, PY, SetupFailure


def main():
    ap = argparse.ArgumentParser()
    ap.add_argument("pid")
    ap.add_argument("--tier", default=os.environ.get("VERIF_TIER", "quick"))
    ap.add_argument("--replay")
    a = ap.parse_args()
    if a.replay:
        r = subprocess.run([PY, a.replay], env=dict(os.environ, PYTHONPATH=os.environ.get("VF_ROOT", "/verif") + ":" + os.environ.get("VF_REPO", "/repo"), TZ="UTC"))
        sys.exit(r.returncode)
    tier = a.tier if a.tier in ("quick", "thorough") else "quick"
    seed = int(os.environ.get("VERIF_SEED", "0") or 0)
    run = Run(a.pid, tier, seed)
    try:
        mod = importlib.import_module(f"props.{a.pid}")
        mod.run(run, tier)
    except SetupFailure as e:
        v = run.violation(f"setup.{e.key}", f"setup:{e.key}", e.what, e.replay_text)
        run.obligation(f"setup.{e.key}", "violated" if v == "violated" else v, e.what)
        if v == "inconclusive":
            run.internal_errors.append(f"setup failure that does not reproduce: {e.what}")
    except Exception as e:
        run.internal_errors.append(f"{type(e).__name__}: {e}\n{traceback.format_exc()}")
    sys.exit(run.finish())


if __name__ == "__main__":
    main()
