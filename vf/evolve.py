"""Reader schemas derived from a writer schema by one evolution step (compatible or
incompatible) applied at any position.  Deterministic."""
import copy

PRIMS = ("null", "boolean", "int", "long", "float", "double", "bytes", "string")
PROMO = {"int": ["long", "float", "double"], "long": ["float", "double"], "float": ["double"],
         "string": ["bytes"], "bytes": ["string"]}
INCOMPAT = {"int": ["string", "boolean"], "long": ["int"], "double": ["float", "long"], "float": ["int"],
            "string": ["int"], "bytes": ["long"], "boolean": ["int"], "null": ["int"]}


def positions(s, path=()):
    """yield (path, node) for every type position; path elements index into the JSON"""
    yield path, s
    if isinstance(s, list):
        for i, b in enumerate(s):
            yield from positions(b, path + (i,))
    elif isinstance(s, dict):
        t = s.get("type")
        if t == "array":
            yield from positions(s["items"], path + ("items",))
        elif t == "map":
            yield from positions(s["values"], path + ("values",))
        elif t in ("record", "error"):
            for i, f in enumerate(s.get("fields", [])):
                yield from positions(f["type"], path + ("fields", i, "type"))


def replace_at(s, path, new):
    s = copy.deepcopy(s)
    if not path:
        return new
    cur = s
    for p in path[:-1]:
        cur = cur[p]
    cur[path[-1]] = new
    return s


def _kind(node):
    if isinstance(node, list):
        return "union"
    if isinstance(node, dict):
        return node["type"]
    return node if node in PRIMS else "ref"


def steps(node):
    """(label, replacement) for one node"""
    k = _kind(node)
    out = []
    base = node["type"] if isinstance(node, dict) and k in PRIMS else node
    if k in PRIMS:
        for t in PROMO.get(k, []):
            out.append((f"promote-{k}-to-{t}", t))
        for t in INCOMPAT.get(k, []):
            out.append((f"incompatible-{k}-to-{t}", t))
        out.append((f"wrap-{k}-in-union", ["null", base]))
        if k in ("int", "long"):
            out.append((f"union-promotable-before-exact-{k}", ["float", base]))
            out.append((f"union-exact-before-promotable-{k}", [base, "double"]))
        out.append((f"to-dict-form-{k}", {"type": base}))
    elif k == "union":
        out.append(("union-add-branch", list(node) + [{"type": "fixed", "name": "AddedFx", "size": 1}]))
        if len(node) > 1:
            out.append(("union-drop-first-branch", list(node[1:])))
            out.append(("union-drop-last-branch", list(node[:-1])))
            out.append(("union-reorder", list(node[1:]) + [node[0]]))
        for i, b in enumerate(node):
            out.append((f"union-to-branch-{i}", b))
    elif k == "array":
        out.append(("array-to-map", {"type": "map", "values": node["items"]}))
    elif k == "map":
        out.append(("map-to-array", {"type": "array", "items": node["values"]}))
    elif k == "enum":
        syms = node["symbols"]
        out.append(("enum-drop-symbol-with-default", dict(node, symbols=syms[:-1], default=syms[0])))
        out.append(("enum-drop-symbol-no-default", dict(node, symbols=syms[:-1])))
        out.append(("enum-drop-first-symbol-with-default", dict(node, symbols=syms[1:], default=syms[-1])))
        out.append(("enum-add-symbol", dict(node, symbols=syms + ["ZZ"])))
        out.append(("enum-reorder", dict(node, symbols=syms[::-1])))
        out.append(("enum-rename-with-alias", dict(node, name="Renamed" + node["name"].split(".")[-1], aliases=[node["name"]])))
        out.append(("enum-rename-no-alias", dict(node, name="Renamed" + node["name"].split(".")[-1])))
    elif k == "fixed":
        out.append(("fixed-size-change", dict(node, size=node["size"] + 1)))
        out.append(("fixed-rename-with-alias", dict(node, name="Renamed" + node["name"].split(".")[-1], aliases=[node["name"]])))
        out.append(("fixed-rename-no-alias", dict(node, name="Renamed" + node["name"].split(".")[-1])))
        out.append(("fixed-to-bytes", "bytes"))
    elif k in ("record", "error"):
        fs = node.get("fields", [])
        nm = node["name"].split(".")[-1]
        out.append(("record-add-field-with-default", dict(node, fields=fs + [{"name": "added", "type": "int", "default": 42}])))
        out.append(("record-add-field-null-default", dict(node, fields=[{"name": "added", "type": ["null", "string"], "default": None}] + fs)))
        out.append(("record-add-field-no-default", dict(node, fields=fs + [{"name": "added", "type": "int"}])))
        if fs:
            out.append(("record-drop-first-field", dict(node, fields=fs[1:])))
            out.append(("record-drop-last-field", dict(node, fields=fs[:-1])))
            out.append(("record-reorder-fields", dict(node, fields=fs[::-1])))
            f0 = fs[0]
            out.append(("record-rename-field-with-alias",
                        dict(node, fields=[dict(f0, name="renamed", aliases=[f0["name"]])] + fs[1:])))
            ren = dict(f0, name="renamed")
            ren.pop("default", None)
            out.append(("record-rename-field-no-alias-no-default", dict(node, fields=[ren] + fs[1:])))
        out.append(("record-rename-with-alias", dict(node, name="Renamed" + nm, aliases=[node["name"]])))
        out.append(("record-rename-with-unqualified-alias", dict(node, name="Renamed" + nm, aliases=[nm])))
        out.append(("record-rename-no-alias", dict(node, name="Renamed" + nm)))
        out.append(("record-other-namespace", dict(node, name="other.ns." + nm)))
    return out


def _refs_ok(s):
    """a reader produced by dropping a definition may refer to a now-undefined name"""
    try:
        from vf.oracles import ir
        names = {}
        node = ir.to_ir(s, "", names)

        def chk(n):
            if n["k"] == "ref":
                if n["name"] not in names:
                    raise KeyError(n["name"])
            elif n["k"] == "array":
                chk(n["items"])
            elif n["k"] == "map":
                chk(n["values"])
            elif n["k"] == "union":
                for b in n["branches"]:
                    chk(b)
            elif n["k"] == "record":
                for f in n["fields"]:
                    chk(f["t"])
        chk(node)
        for d in list(names.values()):
            chk(d)
        return True
    except Exception:
        return False


def readers(writer):
    """list of (label, reader schema): identity + every step at every position"""
    out = [("identity-copy", copy.deepcopy(writer))]
    seen = set()
    for path, node in positions(writer):
        for label, new in steps(node):
            r = replace_at(writer, path, copy.deepcopy(new))
            key = repr(r)
            if key in seen or not _refs_ok(r) or not _valid_unions(r):
                continue
            seen.add(key)
            out.append((label + "@" + "/".join(map(str, path)), r))
    return out


def _valid_unions(s):
    """no union directly inside a union, no duplicate unnamed kinds"""
    for path, node in positions(s):
        if isinstance(node, list):
            kinds = []
            for b in node:
                if isinstance(b, list):
                    return False
                k = _kind(b)
                if k in ("record", "enum", "fixed", "error", "ref"):
                    continue
                if k in kinds:
                    return False
                kinds.append(k)
    return True
