"""Reader schemas derived from a writer schema by one evolution step (compatible or
incompatible) applied at any position.  Deterministic."""
import copy

PRIMS = ("null", "boolean", "int", "long", "float", "double", "bytes", "string")
PROMO = {"int": ["long", "float", "double"], "long": ["float", "double"], "float": ["double"],
         "string": ["bytes"], "bytes": ["string"]}
INCOMPAT = {"int": ["string", "boolean"], "long": ["int"], "double": ["float", "long"], "float": ["int"],
            "string": ["int"], "bytes": ["long"], "boolean": ["int"], "null": ["int"]}


def positions(s, path=()):
    """yield (path, node) for every type position; path elements index into the JSON"""
    yield path, s
    if isinstance(s, list):
        for i, b in enumerate(s):
            yield from positions(b, path + (i,))
    elif isinstance(s, dict):
        t = s.get("type")
        if t == "array":
            yield from positions(s["items"], path + ("items",))
        elif t == "map":
            yield from positions(s["values"], path + ("values",))
        elif t in ("record", "error"):
            for i, f in enumerate(s.get("fields", [])):
                yield from positions(f["type"], path + ("fields", i, "type"))


def replace_at(s, path, new):
    s = copy.deepcopy(s)
    if not path:
        return new
    cur = s
    for p in path[:-1]:
        cur = cur[p]
    cur[path[-1]] = new
    return s


def _kind(node):
    if isinstance(node, list):
        return "union"
    if isinstance(node, dict):
        return node["type"]
    return node if node in PRIMS else "ref"


def steps(node):
    """(label, replacement) for one node"""
    k = _kind(node)
    out = []
    base = node["type"] if isinstance(node, dict) and k in PRIMS else node
    if k in PRIMS:
        for t in PROMO.get(k, []):
            out.append((f"promote-{k}-to-{t}", t))
        for t in INCOMPAT.get(k, []):
            out.append((f"incompatible-{k}-to-{t}", t))
        out.append((f"wrap-{k}-in-union", ["null", base]))
        if k in ("int", "long"):
            out.append((f"union-promotable-before-exact-{k}", ["float", base]))
            out.append((f"union-exact-before-promotable-{k}", [base, "double"]))
            out.append((f"union-promotable-before-exact-dictform-{k}", ["double", {"type": base}]))
        if k in ("string", "bytes"):
            other = "bytes" if k == "string" else "string"
            out.append((f"union-promotable-before-exact-{k}", [other, base]))
            out.append((f"union-promotable-before-exact-dictform-{k}", [other, {"type": base, "x-attr": "v"}]))
        if k == "float":
            out.append(("union-promotable-before-exact-dictform-float", ["double", {"type": "float"}]))
        out.append((f"to-dict-form-{k}", {"type": base}))
    elif k == "union":
        out.append(("union-add-branch", list(node) + [{"type": "fixed", "name": "AddedFx", "size": 1}]))
        if len(node) > 1:
            out.append(("union-drop-first-branch", list(node[1:])))
            out.append(("union-drop-last-branch", list(node[:-1])))
            out.append(("union-reorder", list(node[1:]) + [node[0]]))
        for i, b in enumerate(node):
            out.append((f"union-to-branch-{i}", b))
    elif k == "array":
        out.append(("array-to-map", {"type": "map", "values": node["items"]}))
    elif k == "map":
        out.append(("map-to-array", {"type": "array", "items": node["values"]}))
    elif k == "enum":
        syms = node["symbols"]
        out.append(("enum-drop-symbol-with-default", dict(node, symbols=syms[:-1], default=syms[0])))
        out.append(("enum-drop-symbol-no-default", dict(node, symbols=syms[:-1])))
        if "default" in node:
            # the WRITER's enum declares a default, the reader's neither knows the symbol nor has a default of its own
            out.append(("enum-drop-symbol-and-own-default", {k: v for k, v in dict(node, symbols=[x for x in syms if x != syms[-1]]).items() if k != "default"}))
        out.append(("enum-drop-first-symbol-with-default", dict(node, symbols=syms[1:], default=syms[-1])))
        out.append(("enum-add-symbol", dict(node, symbols=syms + ["ZZ"])))
        out.append(("enum-reorder", dict(node, symbols=syms[::-1])))
        out.append(("enum-rename-with-alias", dict(node, name="Renamed" + node["name"].split(".")[-1], aliases=[node["name"]])))
        out.append(("enum-rename-no-alias", dict(node, name="Renamed" + node["name"].split(".")[-1])))
        out.append(("enum-rename-with-alias-and-drop-symbol",
                    dict(node, name="Renamed" + node["name"].split(".")[-1], aliases=[node["name"]],
                         symbols=syms[:-1], default=syms[0])))
    elif k == "fixed":
        out.append(("fixed-size-change", dict(node, size=node["size"] + 1)))
        out.append(("fixed-rename-with-alias", dict(node, name="Renamed" + node["name"].split(".")[-1], aliases=[node["name"]])))
        out.append(("fixed-rename-no-alias", dict(node, name="Renamed" + node["name"].split(".")[-1])))
        out.append(("fixed-to-bytes", "bytes"))
    elif k in ("record", "error"):
        fs = node.get("fields", [])
        nm = node["name"].split(".")[-1]
        out.append(("record-add-field-with-default", dict(node, fields=fs + [{"name": "added", "type": "int", "default": 42}])))
        out.append(("record-add-field-null-default", dict(node, fields=[{"name": "added", "type": ["null", "string"], "default": None}] + fs)))
        out.append(("record-add-field-no-default", dict(node, fields=fs + [{"name": "added", "type": "int"}])))
        out.append(("record-add-field-bytes-default", dict(node, fields=fs + [{"name": "addedb", "type": "bytes", "default": "\u00ff\u0001"}])))
        if fs:
            out.append(("record-drop-first-field", dict(node, fields=fs[1:])))
            out.append(("record-drop-last-field", dict(node, fields=fs[:-1])))
            out.append(("record-reorder-fields", dict(node, fields=fs[::-1])))
            f0 = fs[0]
            out.append(("record-rename-field-with-alias",
                        dict(node, fields=[dict(f0, name="renamed", aliases=[f0["name"]])] + fs[1:])))
            ren = dict(f0, name="renamed")
            ren.pop("default", None)
            out.append(("record-rename-field-no-alias-no-default", dict(node, fields=[ren] + fs[1:])))
        out.append(("record-rename-with-alias", dict(node, name="Renamed" + nm, aliases=[node["name"]])))
        out.append(("record-rename-with-unqualified-alias", dict(node, name="Renamed" + nm, aliases=[nm])))
        out.append(("record-rename-no-alias", dict(node, name="Renamed" + nm)))
        # two cooperating steps on one type: renamed (matched through the alias) AND changed
        out.append(("record-rename-with-alias-and-add-field",
                    dict(node, name="Renamed" + nm, aliases=[node["name"]],
                         fields=fs + [{"name": "added", "type": "int", "default": 42}])))
        if fs:
            out.append(("record-rename-with-alias-and-drop-field",
                        dict(node, name="Renamed" + nm, aliases=[node["name"]], fields=fs[:-1])))
        out.append(("record-other-namespace", dict(node, name="other.ns." + nm)))
    return out


def _refs_ok(s):
    """a reader produced by dropping a definition may refer to a now-undefined name"""
    try:
        from vf.oracles import ir
        names = {}
        node = ir.to_ir(s, "", names)

        def chk(n):
            if n["k"] == "ref":
                if n["name"] not in names:
                    raise KeyError(n["name"])
            elif n["k"] == "array":
                chk(n["items"])
            elif n["k"] == "map":
                chk(n["values"])
            elif n["k"] == "union":
                for b in n["branches"]:
                    chk(b)
            elif n["k"] == "record":
                for f in n["fields"]:
                    chk(f["t"])
        chk(node)
        for d in list(names.values()):
            chk(d)
        return True
    except Exception:
        return False


def _rename_refs(s, old_full, old_ns, old_simple, new_full):
    """rewrite by-name references to a renamed type (full name, or simple name inside the same namespace)"""
    def walk(x, ns):
        if isinstance(x, list):
            return [walk(b, ns) for b in x]
        if isinstance(x, str):
            if x == old_full or (x == old_simple and ns == old_ns):
                return new_full
            return x
        if isinstance(x, dict):
            d = dict(x)
            t = x.get("type")
            cns = ns
            if t in ("record", "error", "enum", "fixed") and "name" in x:
                from vf.oracles.ir import fullname
                cns, _ = fullname(x["name"], x.get("namespace"), ns)
            if "fields" in d and isinstance(d["fields"], list):
                d["fields"] = [dict(f, type=walk(f["type"], cns)) for f in d["fields"]]
            if t == "array":
                d["items"] = walk(x["items"], ns)
            elif t == "map":
                d["values"] = walk(x["values"], ns)
            elif isinstance(t, (dict, list)):
                d["type"] = walk(t, ns)
            return d
        return x
    return walk(s, "")


def _definitions_first(s):
    """re-establish 'definition at first use': walking in document order, the first occurrence of a named type
    (definition or reference) becomes the definition, later ones references (used after reordering fields)"""
    from vf.oracles.ir import fullname
    defs = {}

    def collect(x, ns):
        if isinstance(x, list):
            for b in x:
                collect(b, ns)
        elif isinstance(x, dict):
            t = x.get("type")
            cns = ns
            if t in ("record", "error", "enum", "fixed") and "name" in x:
                cns, full = fullname(x["name"], x.get("namespace"), ns)
                defs[full] = (x, ns)
            for f in x.get("fields", []) if isinstance(x.get("fields"), list) else []:
                collect(f["type"], cns)
            if t == "array":
                collect(x["items"], ns)
            elif t == "map":
                collect(x["values"], ns)
    collect(s, "")
    done = set()

    def rebuild(x, ns):
        if isinstance(x, list):
            return [rebuild(b, ns) for b in x]
        if isinstance(x, str):
            full = x if ("." in x or not ns) else ns + "." + x
            if full in defs and full not in done:
                d, dns = defs[full]
                q = dict(d)
                q["name"] = full
                q.pop("namespace", None)
                return rebuild(q, "")
            return full if full in defs else x
        if isinstance(x, dict):
            t = x.get("type")
            d = dict(x)
            cns = ns
            if t in ("record", "error", "enum", "fixed") and "name" in x:
                cns, full = fullname(x["name"], x.get("namespace"), ns)
                if full in done:
                    return full
                done.add(full)
            if isinstance(x.get("fields"), list):
                d["fields"] = [dict(f, type=rebuild(f["type"], cns)) for f in x["fields"]]
            if t == "array":
                d["items"] = rebuild(x["items"], ns)
            elif t == "map":
                d["values"] = rebuild(x["values"], ns)
            return d
        return x
    return rebuild(s, "")


def _defs(s):
    """full name -> definition (with its namespace context) of every named type defined in s"""
    from vf.oracles.ir import fullname
    out = {}

    def walk(x, ns):
        if isinstance(x, list):
            for b in x:
                walk(b, ns)
        elif isinstance(x, dict):
            t = x.get("type")
            cns = ns
            if t in ("record", "error", "enum", "fixed") and "name" in x:
                cns, full = fullname(x["name"], x.get("namespace"), ns)
                out[full] = (x, cns)
            for f in x.get("fields", []) if isinstance(x.get("fields"), list) else []:
                walk(f["type"], cns)
            if t == "array":
                walk(x["items"], ns)
            elif t == "map":
                walk(x["values"], ns)
    walk(s, "")
    return out


def _names_only(x, ns):
    """copy of a type expression in which nested named definitions are replaced by their full names"""
    from vf.oracles.ir import fullname
    if isinstance(x, list):
        return [_names_only(b, ns) for b in x]
    if isinstance(x, str):
        return x if (x in PRIMS or "." in x or not ns) else ns + "." + x
    if isinstance(x, dict):
        t = x.get("type")
        if t in ("record", "error", "enum", "fixed") and "name" in x:
            return fullname(x["name"], x.get("namespace"), ns)[1]
        d = dict(x)
        if t == "array":
            d["items"] = _names_only(x["items"], ns)
        elif t == "map":
            d["values"] = _names_only(x["values"], ns)
        return d
    return x


def _ref_variants(writer):
    """a by-name use of a record replaced, in the reader, by a differently named record that matches it through an
    alias and adds a defaulted field: the same writer type then resolves against two different reader types"""
    defs = _defs(writer)
    out = []
    for path, node in positions(writer):
        if _kind(node) != "ref" or not path:
            continue
        ns = _ns_at(writer, path)
        full = node if ("." in node or not ns) else ns + "." + node
        if full not in defs or defs[full][0].get("type") not in ("record", "error"):
            continue
        d, dns = defs[full]
        simple = full.split(".")[-1]
        variant = {"type": "record", "name": ("%s.Alt%s" % (full.rsplit(".", 1)[0], simple)) if "." in full else "Alt" + simple,
                   "aliases": [full],
                   "fields": [dict(f, type=_names_only(f["type"], dns)) for f in d.get("fields", [])]
                   + [{"name": "added", "type": "int", "default": 42}]}
        out.append(("ref-to-aliased-record-variant@" + "/".join(map(str, path)), replace_at(writer, path, variant)))
    return out


def readers(writer):
    """list of (label, reader schema): identity + every step at every position"""
    out = [("identity-copy", copy.deepcopy(writer))]
    out += _ref_variants(writer)
    seen = set()
    for path, node in positions(writer):
        for label, new in steps(node):
            r = replace_at(writer, path, copy.deepcopy(new))
            if "rename" in label and isinstance(node, dict) and isinstance(new, dict) and "name" in node and "name" in new:
                # references to the renamed type follow the new name (the reader is a consistent schema)
                from vf.oracles.ir import fullname
                # namespace context of the node: recompute from the path
                ctx_ns = _ns_at(writer, path)
                ons, ofull = fullname(node["name"], node.get("namespace"), ctx_ns)
                _, nfull = fullname(new["name"], new.get("namespace"), ctx_ns)
                r = _rename_refs(r, ofull, ons, node["name"].split(".")[-1], nfull)
            if "reorder" in label or "drop-first" in label:
                try:
                    r = _definitions_first(r)
                except Exception:
                    pass
            key = repr(r)
            if key in seen or not _refs_ok(r) or not _valid_unions(r):
                continue
            seen.add(key)
            out.append((label + "@" + "/".join(map(str, path)), r))
    return out


def _ns_at(s, path):
    """enclosing namespace at a path of the raw schema"""
    from vf.oracles.ir import fullname
    ns = ""
    cur = s
    for p in path:
        if isinstance(cur, dict) and cur.get("type") in ("record", "error") and "name" in cur:
            ns, _ = fullname(cur["name"], cur.get("namespace"), ns)
        cur = cur[p]
    return ns


def _valid_unions(s):
    """no union directly inside a union, no duplicate unnamed kinds"""
    for path, node in positions(s):
        if isinstance(node, list):
            kinds = []
            for b in node:
                if isinstance(b, list):
                    return False
                k = _kind(b)
                if k in ("record", "enum", "fixed", "error", "ref"):
                    continue
                if k in kinds:
                    return False
                kinds.append(k)
    return True
