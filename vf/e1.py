"""E1 harness runner.

A harness is a function h(m) over a Mode object `m`.  In symbolic mode `m`
hands out z3-backed values and instrumented copies of the repo's modules; each
m.prove(...) is a solver query under the current path condition.  In concrete
mode (replay / engine validation) the very same harness runs on the unmodified
modules with the model's values and real io.BytesIO streams.
"""
import importlib
import io
import json
import time
import traceback
import z3

from .symex import core, models, rewrite
from .symex.core import SInt, SBool, SFloat, Ctx, explore, WIDTH, zint


def Z(x, like=None):
    """lift any value to a z3 term"""
    if isinstance(x, (SInt, SBool, SFloat)):
        return x.e
    if isinstance(x, bool):
        return z3.BoolVal(x)
    if isinstance(x, int):
        return zint(x, like)
    if isinstance(x, float):
        return z3.FPVal(x, core.F64)
    if z3.is_expr(x):
        return x
    raise TypeError(f"Z: {type(x)}")


class ConcreteIn(io.BytesIO):
    pass


class Mode:
    def __init__(self, runner, harness, values=None):
        self.runner = runner
        self.harness = harness
        self.sym = values is None
        self.values = values or {}
        self.small = []  # preference constraints for replayable models
        self.failures = []  # concrete mode: failed obligations
        self.reached = set()

    # ---- inputs ---------------------------------------------------------
    def int(self, name, lo=None, hi=None, small=None, arith=False):
        if self.sym:
            v = core.sym_int(name, lo, hi, arith=arith)
            if small is not None:
                self.small.append(v.e <= zint(small, v.e))
            return v
        return int(self.values[name])

    def bool(self, name):
        if self.sym:
            return core.sym_bool(name)
        return bool(self.values[name])

    def f64(self, name, nan=False):
        """a double given by its 64-bit pattern (NaN excluded unless nan=True)"""
        if self.sym:
            c = core.cur()
            bits = z3.BitVec(name, 64)
            c.inputs[name] = bits
            e = z3.fpBVToFP(bits, core.F64)
            if not nan:
                c.solver.add(z3.Not(z3.fpIsNaN(e)))
                c.pc.append(z3.Not(z3.fpIsNaN(e)))
            return SFloat(e)
        import struct
        return struct.unpack("<d", struct.pack("<Q", int(self.values[name]) & (2**64 - 1)))[0]

    def ostr(self, name):
        """an arbitrary str, known by its character length and UTF-8 byte length"""
        from .symex.strings import OStr
        if self.sym:
            clen = self.int(name + ".clen", 0, 1 << 40, small=6)
            blen = self.int(name + ".blen", 0, 1 << 42, small=24)
            self.assume(z3.And(clen.e <= blen.e, blen.e <= 4 * clen.e))
            o = OStr(name, clen, blen)
            c = core.cur()
            if not hasattr(c, "ostr_registry") or c.ostr_registry.get("__run") is not c.solver:
                c.ostr_registry = {"__run": c.solver}
            c.ostr_registry[name] = o
            return o
        clen, blen = int(self.values[name + ".clen"]), int(self.values[name + ".blen"])
        if not (clen <= blen <= 4 * clen):
            raise AssumptionFailed()
        if blen > (1 << 22):
            raise Unreplayable("string too long")
        extra = blen - clen
        chars = []
        for i in range(clen):
            k = min(3, extra)
            extra -= k
            chars.append(["a", "\u00e9", "\u20ac", "\U0001d11e"][k])
        return "".join(chars)

    def sstr(self, name, cap, lo=1, hi=127, small=None):
        """an arbitrary str of at most `cap` characters, each in lo..hi (ASCII); character-level symbolic"""
        if self.sym:
            from .symex.sstr import SStr
            v = SStr.fresh(name, cap, lo, hi)
            if small is not None:
                self.small.append(v.n <= small)
            return v
        n = int(self.values[name + ".len"])
        return "".join(chr(int(self.values[f"{name}[{i}]"])) for i in range(n))

    def choice(self, name, lo, hi):
        """a concrete int in [lo, hi]; the engine forks over every value"""
        v = self.int(name, lo, hi)
        if self.sym:
            return core.concretize(v)
        return v

    def byte(self, name):
        return self.int(name, 0, 255)

    def floordiv(self, x, c):
        """z3 Int term for floor(x / c), c a positive constant (defined by its axioms in symbolic mode)"""
        if self.sym:
            return core.int_divmod_const(x, c)[0]
        return z3.IntVal(z3.simplify(x).as_long() // c)

    def assume(self, cond):
        if self.sym:
            core.cur().assume(Z(cond))
        else:
            if not z3.is_true(z3.simplify(Z(cond))):
                raise AssumptionFailed()

    # ---- code under test ------------------------------------------------
    def mod(self, name):
        self.runner.modules.add(name)
        if self.sym:
            return rewrite.instrument(name)
        return importlib.import_module(name)

    # ---- streams ----------------------------------------------------------
    def out(self):
        return models.SymOut() if self.sym else io.BytesIO()

    def inp(self, data):
        if self.sym:
            return models.SymIn(data)
        return io.BytesIO(bytes(data))

    def blob(self, name, n):
        """n opaque bytes"""
        if self.sym:
            return models.SBytes([models.Blob(name, 0, n)])
        n = int(n)
        if n > (1 << 24):
            raise Unreplayable(f"blob of {n} bytes")
        return bytes((i * 37 + len(name)) & 0xFF for i in range(n))

    def byte_terms(self, b):
        """list of z3 BV(WIDTH) terms for a blob-free byte string"""
        if isinstance(b, models.SBytes):
            if b.has_blob():
                raise core.Unsupported("byte_terms of opaque bytes")
            return [zint(p) for p in b.pieces]
        return [zint(x) for x in bytes(b)]

    def consumed(self, stream):
        return stream.tell()

    # ---- obligations ------------------------------------------------------
    def prove(self, name, cond, what=""):
        cond = Z(cond)
        self.reached.add(name)
        if not self.sym:
            if not z3.is_true(z3.simplify(cond)):
                self.failures.append((name, what))
            return
        self.runner._prove(self, name, cond, what)

    def fail(self, name, what=""):
        """an outcome that is a violation whenever it is reachable"""
        self.prove(name, z3.BoolVal(False), what)

    def note(self, name):
        self.reached.add(name)


def run_harness(h, m):
    """run a harness; an exception escaping from the code under test is itself an obligation failure
    ('unexpected_exception'), not a crash of the machinery"""
    try:
        h(m)
    except (AssumptionFailed, Unreplayable):
        raise
    except Exception as e:
        import traceback as _tb
        tb = _tb.extract_tb(e.__traceback__)
        where = f"{tb[-1].filename.split('/')[-1]}:{tb[-1].lineno}" if tb else "?"
        if any("/fastavro/" in fr.filename for fr in tb) or m.sym is False:
            m.prove("unexpected_exception", False, f"{type(e).__name__}: {e} at {where}")
        else:
            raise


class AssumptionFailed(Exception):
    pass


class Unreplayable(Exception):
    pass


class E1Runner:
    """Runs harnesses symbolically, aggregates per-obligation verdicts into a report.Run."""

    def __init__(self, run, validate_witnesses=True):
        self.run = run
        self.modules = set()
        self.validate_witnesses = validate_witnesses
        run.engines.add("E1 symex (z3 %s, BV width %d)" % (z3.get_version_string(), WIDTH))

    def check(self, harness, prefix, expect=(), max_paths=4000, key=None, timeout_ms=60000, budget_s=None):
        """Explore harness; obligations are named '<prefix>.<name>'.
        expect: obligation names that must be reached by at least one path."""
        self.cur_h = harness
        self.cur_prefix = prefix
        self.st = {}  # name -> dict
        self.key = key
        ctx = Ctx(max_paths=max_paths, timeout_ms=timeout_ms,
                  budget_s=budget_s or (300 if self.run.tier == "quick" else 1500))
        t0 = time.time()
        nvalid = [0]

        def body():
            m = Mode(self, harness)
            try:
                run_harness(harness, m)
            finally:
                self._end_path(m, nvalid)
            return None

        try:
            results, ctx = explore(body, ctx)
        except Exception as e:  # harness bug or repo code raising outside try blocks
            self.run.internal_errors.append(f"{prefix}: {type(e).__name__}: {e}\n{traceback.format_exc()[-1500:]}")
            return
        bad = [r for r in results if r[0] in ("unsupported", "bound")]
        nq, st = ctx.queries, ctx.solver_time
        names = set(self.st) | set(expect)
        first = True
        for name in sorted(names):
            s = self.st.get(name)
            full = f"{prefix}.{name}"
            q = nq if first else 0
            t = st if first else 0.0
            p = ctx.paths if first else 0
            first = False
            if s is None:
                self.run.obligation(full, "inconclusive", "never reached (vacuous)" + (
                    f"; engine: {bad[0][1]}" if bad else ""), p, q, t)
            elif s["viol"]:
                self.run.obligation(full, s["viol"], s.get("what", ""), p, q, t)
            elif s.get("known"):
                self.run.obligation(full, "known", s.get("what", ""), p, q, t)
            elif s["inc"]:
                self.run.obligation(full, "inconclusive", s["inc"], p, q, t)
            elif bad:
                self.run.obligation(full, "inconclusive", f"{len(bad)} path(s) not explored: {bad[0][1]}", p, q, t)
            else:
                self.run.obligation(full, "discharged", f"{s['n']} path queries unsat", p, q, t)
        if not names:
            self.run.obligation(prefix, "inconclusive", "no obligation reached" + (f": {bad[0][1]}" if bad else ""),
                                ctx.paths, nq, st)
        self.run.validated += nvalid[0]
        self.run.stubs |= models.STUBS_USED
        for mname in self.modules:
            if mname in rewrite.SOURCES:
                self.run.functions[mname] = "sha1:" + rewrite.SOURCES[mname][1]

    def check_many(self, specs, workers=12):
        """specs: list of dict(harness=, prefix=, expect=, ...kwargs of check).  Each harness is explored in
        its own forked process (E1 is single-threaded); obligations are merged into self.run."""
        import multiprocessing as mp
        from concurrent.futures import ProcessPoolExecutor
        from .report import Run
        if len(specs) <= 1:
            for sp in specs:
                self.check(**sp)
            return
        ctx = mp.get_context("fork")
        with ProcessPoolExecutor(max_workers=min(workers, len(specs)), mp_context=ctx) as ex:
            futs = [ex.submit(_worker, self.run.pid, self.run.tier, self.run.seed, sp) for sp in specs]
            for sp, f in zip(specs, futs):
                try:
                    res = f.result()
                except Exception as e:
                    self.run.internal_errors.append(f"{sp['prefix']}: worker failed: {type(e).__name__}: {e}")
                    continue
                self._merge(res)

    def _merge(self, res):
        run = self.run
        for name, o in res["obl"].items():
            run.obl[name] = o
            if o["status"] == "inconclusive":
                print(f"INCONCLUSIVE property={run.pid} obligation={name} reason={o['detail']}", flush=True)
        run.states += res["states"]
        run.transitions += res["transitions"]
        run.solver_s += res["solver_s"]
        run.validated += res["validated"]
        run.violations += res["violations"]
        run.stubs |= set(res["stubs"])
        run.functions.update(res["functions"])
        run.internal_errors += res["internal_errors"]
        for s_ in res["samples"]:
            run.sample(s_)

    # ------------------------------------------------------------------
    def _model_values(self, ctx, model):
        vals = {}
        for name, e in ctx.inputs.items():
            v = model.eval(e, model_completion=True)
            if z3.is_bv_value(v):
                vals[name] = v.as_signed_long() if v.size() == WIDTH else v.as_long()
            elif z3.is_int_value(v):
                vals[name] = v.as_long()
            elif z3.is_true(v) or z3.is_false(v):
                vals[name] = bool(z3.is_true(v))
            else:
                vals[name] = str(v)
        return vals

    def _prove(self, m, name, cond, what):
        ctx = core.cur()
        s = self.st.setdefault(name, dict(n=0, viol=None, inc=None, known=set()))
        if s["viol"]:
            return
        # overflow VCs first: a failing VC is a modelling bound, not a finding
        neg = z3.Not(cond)
        r = ctx.check(neg)
        if r == z3.unsat:
            if ctx.vcs:
                rv = ctx.check(z3.Not(z3.And(*ctx.vcs)))
                if rv != z3.unsat:
                    s["inc"] = "no-overflow VC not discharged (engine width bound)"
                    return
            s["n"] += 1
            return
        if r == z3.unknown:
            s["inc"] = "solver returned unknown"
            return
        # sat: prefer a small, replayable model; the VCs must hold in it
        extra = [neg] + ([z3.And(*ctx.vcs)] if ctx.vcs else [])
        model = None
        if m.small and ctx.check(*(extra + m.small)) == z3.sat:
            model = ctx.solver.model()
        elif ctx.check(*extra) == z3.sat:
            model = ctx.solver.model()
        if model is None:
            s["inc"] = "counterexample only outside the engine width bound"
            return
        vals = self._model_values(ctx, model)
        full = f"{self.cur_prefix}.{name}"
        key = self.key(name, vals) if self.key else full
        if key in s["known"]:
            return
        # in-process concrete run first (cheap); the subprocess replay confirms
        try:
            cm = self._concrete(vals)
        except Unreplayable as e:
            s["inc"] = f"counterexample needs an input too large to replay ({e})"
            return
        except Exception as e:
            s["inc"] = f"concrete run of the model raised {type(e).__name__}: {e}"
            return
        if cm is None or not any(n == name for n, _ in cm.failures):
            s["inc"] = f"model did not reproduce concretely (engine defect?): {vals}"
            return
        verdict = self._replay(name, vals, what, key)
        if verdict == "violated":
            s["viol"] = verdict
            s["what"] = f"{what} values={vals}"
        elif verdict == "known":
            s["known"].add(key)
            s["what"] = f"{what} values={vals}"
        else:
            s["inc"] = f"model did not reproduce concretely: {vals}"

    def _concrete(self, vals):
        m = Mode(self, self.cur_h, values=vals)
        Ctx.current_saved = Ctx.current
        saved = Ctx.current
        Ctx.current = None
        try:
            run_harness(self.cur_h, m)
        except AssumptionFailed:
            return None
        finally:
            Ctx.current = saved
        return m

    def _replay(self, name, vals, what, key):
        hname = f"{self.cur_h.__module__}:{self.cur_h.__name__}"
        full = f"{self.cur_prefix}.{name}"
        text = REPLAY_TMPL.format(harness=hname, vals=json.dumps(vals), ob=name, full=full, what=what)
        return self.run.violation(full, key, f"{what} values={vals}", text)

    def _end_path(self, m, nvalid):
        """engine validation: run the harness concretely on this path's witness"""
        if not self.validate_witnesses or not m.sym:
            return
        ctx = Ctx.current
        if ctx is None or nvalid[0] >= 200:
            return
        try:
            extra = m.small if m.small else []
            r = ctx.check(*extra)
            if r != z3.sat:
                r = ctx.check()
            if r != z3.sat:
                return
            vals = self._model_values(ctx, ctx.solver.model())
        except core.EngineSignal:
            return
        try:
            cm = self._concrete(vals)
        except Unreplayable:
            return
        except Exception as e:
            self.run.internal_errors.append(
                f"{self.cur_prefix}: concrete run of path witness raised {type(e).__name__}: {e} values={vals}")
            return
        if cm is None:
            return
        nvalid[0] += 1
        self.run.sample(dict(harness=self.cur_prefix, witness=vals))
        # A concrete failure on this path's witness (an input produced by the solver for this path) is a
        # reproduced violation of the obligation, whatever the symbolic side concluded on the path (it may have
        # stopped early at an unsupported operation).  It goes through the ordinary replay/known-findings route.
        for (name, what) in cm.failures:
            s = self.st.setdefault(name, dict(n=0, viol=None, inc=None, known=set()))
            if s["viol"]:
                continue
            full = f"{self.cur_prefix}.{name}"
            key = self.key(name, vals) if self.key else full
            if key in s["known"]:
                continue
            verdict = self._replay(name, vals, what + " (found on a path witness)", key)
            if verdict == "violated":
                s["viol"] = verdict
                s["what"] = f"{what} values={vals}"
            elif verdict == "known":
                s["known"].add(key)
                s["what"] = f"{what} values={vals}"
            else:
                s["inc"] = f"engine validation: concrete run fails but the replay script does not: {vals}"


def _worker(pid, tier, seed, spec):
    from .report import Run
    import os
    os.environ["VF_E1_WORKER"] = "1"
    run = Run(pid, tier, seed)
    r = E1Runner(run)
    # INCONCLUSIVE lines are re-printed by the parent; VIOLATION / KNOWN-FINDING lines go straight to stdout
    r.check(**spec)
    return dict(obl=run.obl, states=run.states, transitions=run.transitions, solver_s=run.solver_s,
                validated=run.validated, violations=run.violations, stubs=sorted(run.stubs | models.STUBS_USED),
                functions=run.functions, internal_errors=run.internal_errors, samples=run.samples)


REPLAY_TMPL = '''# replay of a solver-found counterexample: runs the harness in concrete mode
# against the unmodified modules under /repo with real io.BytesIO streams.
import sys, json, os
sys.path[:0] = [os.environ.get("VF_ROOT", "/verif"), os.environ.get("VF_REPO", "/repo")]
from vf.e1 import replay_main
sys.exit(replay_main({harness!r}, json.loads({vals!r}), {ob!r}, {full!r}, {what!r}))
'''


def replay_main(hname, vals, ob, full, what):
    modname, fname = hname.split(":")
    h = getattr(importlib.import_module(modname), fname)
    runner = E1Runner.__new__(E1Runner)
    runner.modules = set()
    m = Mode(runner, h, values=vals)
    try:
        run_harness(h, m)
    except AssumptionFailed:
        print("assumption failed for these values; not a counterexample")
        return 0
    for (name, w) in m.failures:
        if name == ob:
            print(f"REPRODUCED {full}: {w or what} values={vals}")
            return 1
    print(f"not reproduced: obligation {full} holds for values={vals}")
    return 0
