"""Evaluate seeded property-breaking changes against the checks.

usage: python -m vf.seedeval <property> <seed dir with patch.diff, demo.py[, notes.md]> <name>
Confirms in a scratch worktree that (1) the demo passes without the patch, (2) the patched tree passes the
existing tests (9 baseline failures), (3) the demo fails with the patch; then runs the property's quick check
against the patched scratch tree (VF_REPO) and records the outcome in /verif/seeded/<property>/<name>/meta.json.
/repo itself is never modified."""
import json
import os
import shutil
import subprocess
import sys
import time

PYT = "/venv/bin/python"


def sh(cmd, **kw):
    return subprocess.run(cmd, shell=True, capture_output=True, text=True, **kw)


def main():
    pid, src, name = sys.argv[1:4]
    checks = sys.argv[4:] or [pid]
    wt = f"/tmp/seedeval_{pid}_{name}_{os.getpid()}"
    sh(f"git -C /repo worktree add -q --detach {wt} HEAD")
    meta = dict(property=pid, name=name, source=src, at=time.strftime("%Y-%m-%dT%H:%M:%SZ", time.gmtime()))
    try:
        demo = os.path.join(src, "demo.py")
        r0 = sh(f"cd {wt} && PYTHONPATH={wt} {PYT} {demo}")
        meta["demo_on_clean"] = dict(exit=r0.returncode, tail=(r0.stdout + r0.stderr)[-300:])
        a = sh(f"git -C {wt} apply {os.path.join(src, 'patch.diff')}")
        if a.returncode != 0:
            meta["apply_error"] = a.stderr[-500:]
            return meta
        prev = None
        try:
            prev = json.load(open(f"/verif/seeded/{pid}/{name}/meta.json"))
        except Exception:
            pass
        if os.environ.get("VF_REUSE_CONFIRMATION") and prev and prev.get("confirmed") and prev.get("tests_failed_with_patch") == 9:
            # the test-suite run of an earlier evaluation of the same patch is reused; the demo is re-run below
            meta["tests_failed_with_patch"] = 9
            meta["tests_reused_from"] = prev.get("at")
        else:
            t = sh(f"cd {wt} && {PYT} -m pytest -q -p no:cacheprovider --timeout=900 -q 2>&1 | grep -c '^FAILED'")
            meta["tests_failed_with_patch"] = int((t.stdout.strip() or "0").splitlines()[-1])
        r1 = sh(f"cd {wt} && PYTHONPATH={wt} {PYT} {demo}")
        meta["demo_with_patch"] = dict(exit=r1.returncode, tail=(r1.stdout + r1.stderr)[-400:])
        meta["confirmed"] = (r0.returncode == 0 and r1.returncode != 0 and meta["tests_failed_with_patch"] == 9)
        meta["checks"] = {}
        try:  # keep the outcome of checks run earlier against this seed and not rerun now
            old = json.load(open(f"/verif/seeded/{pid}/{name}/meta.json"))
            meta["checks"] = {k: dict(v, earlier_run=True) for k, v in old.get("checks", {}).items() if k not in checks}
        except Exception:
            pass
        for c in checks:
            t0 = time.time()
            evd = wt + "_evidence"
            os.makedirs(evd, exist_ok=True)
            env = dict(os.environ, VF_REPO=wt, VF_EVIDENCE_DIR=evd)
            r = subprocess.run(["/verif/bin/check", c, "--tier", "quick"], capture_output=True, text=True, env=env)
            lines = [l for l in r.stdout.splitlines() if l.startswith(("VIOLATION", "SUMMARY", "KNOWN", "INCONCLUSIVE", "INTERNAL"))]
            meta["checks"][c] = dict(exit=r.returncode, wall_s=round(time.time() - t0, 1),
                                     violations=[l for l in lines if l.startswith("VIOLATION")][:5],
                                     summary=[l for l in lines if l.startswith("SUMMARY")],
                                     other=[l[:300] for l in lines if l.startswith(("INCONCLUSIVE", "INTERNAL"))][:6],
                                     what=[l.strip()[:300] for l in r.stdout.splitlines() if l.startswith("  obligation=")][:5])
        meta["detected_by"] = [c for c, v in meta["checks"].items() if v["exit"] == 1 and v["violations"]]
        return meta
    finally:
        out = f"/verif/seeded/{pid}/{name}"
        os.makedirs(out, exist_ok=True)
        for f in ("patch.diff", "demo.py", "notes.md"):
            if os.path.exists(os.path.join(src, f)) and os.path.abspath(src) != os.path.abspath(out):
                shutil.copy(os.path.join(src, f), os.path.join(out, f))
        json.dump(meta, open(os.path.join(out, "meta.json"), "w"), indent=1)
        sh(f"git -C /repo worktree remove --force {wt}")
        shutil.rmtree(wt + "_evidence", ignore_errors=True)
        print(json.dumps({k: meta.get(k) for k in ("property", "name", "confirmed", "detected_by")}))
        for c, v in meta.get("checks", {}).items():
            print(" ", c, "exit", v["exit"], v["summary"], v["what"][:2], v["other"][:2])


if __name__ == "__main__":
    main()
