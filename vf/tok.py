"""Token-stream stand-ins for BinaryEncoder / BinaryDecoder / BytesIO (E2).

The structural code of fastavro (_write_py, _read_py) is executed by CrossHair
above these classes: instead of bytes they move typed tokens (kind, value), so
integers, strings and lengths stay symbolic.  The stand-ins are justified by the
token contract T1-T5 that E1 proves on the real encoder/decoder for every value
(DESIGN.md section 3): sizes, kinds that share an encoding, and the exception
class raised at end of input are taken from that contract.

A request for a token of a kind that is not the next one raises Misaligned.  That
is never a verdict: the witness is replayed on real bytes.
"""
import struct


class Misaligned(Exception):
    pass


def varint_size(n):
    if -64 <= n < 64:
        return 1
    zz = 2 * n if n >= 0 else -2 * n - 1
    k = 1
    while zz >= 128:
        zz >>= 7
        k += 1
    return k


def tok_size(t):
    kind, v = t
    if kind == "long":
        return varint_size(v)
    if kind == "boolean":
        return 1
    if kind == "float":
        return 4
    if kind == "double":
        return 8
    if kind == "bytes":
        n = len(v)
        return varint_size(n) + n
    if kind == "utf8":
        n = len(v.encode())
        return varint_size(n) + n
    if kind == "raw":
        return len(v)
    raise AssertionError(kind)


class TokBytes:
    """A byte string known as a sequence of tokens (contents of a buffer)."""

    def __init__(self, toks):
        self.toks = list(toks)
        self._size = None

    def size(self):
        if self._size is None:
            s = 0
            for t in self.toks:
                s = s + tok_size(t)
            self._size = s
        return self._size

    def __len__(self):
        return self.size()

    def __eq__(self, o):
        return isinstance(o, TokBytes) and self.toks == o.toks

    def __ne__(self, o):
        return not self.__eq__(o)

    __hash__ = None


class TokIO:
    """In-memory stream of tokens with the io.BytesIO surface that fastavro uses."""

    def __init__(self, init=None):
        if init is None:
            self.toks = []
        elif isinstance(init, TokBytes):
            self.toks = list(init.toks)
        elif isinstance(init, (bytes, bytearray)):
            self.toks = [("raw", bytes(init))] if len(init) else []
        else:
            raise TypeError(type(init))
        self.pos = 0
        self.name = "tokio"

    # writing -----------------------------------------------------------------
    def put(self, tok):
        if self.pos > len(self.toks):
            # io.BytesIO would zero-fill the gap: the stream no longer holds what was written
            raise Misaligned("write beyond the end of the stream (position left behind a truncate)")
        if self.pos != len(self.toks):
            raise NotImplementedError("overwrite in the middle of a token stream")
        self.toks.append(tok)
        self.pos += 1

    def write(self, data):
        if isinstance(data, TokBytes):
            if len(data.toks):  # an empty byte string writes nothing
                self.put(("raw", data))
            return data.size()
        if isinstance(data, (bytes, bytearray)):
            if len(data):
                self.put(("raw", bytes(data)))
            return len(data)
        if isinstance(data, Packed):
            self.put(("raw", data))
            return len(data)
        raise TypeError(f"a bytes-like object is required, not '{type(data).__name__}'")

    def flush(self):
        pass

    def getvalue(self):
        return TokBytes(self.toks)

    def truncate(self, n=None):
        if n is None:
            n = self.tell()
        if n == 0:
            self.toks = []
            return 0
        # truncate at a token boundary: keep the longest prefix whose size is n
        s = 0
        for i, t in enumerate(self.toks):
            if s == n:
                self.toks = self.toks[:i]  # like io.BytesIO, truncate does not move the stream position
                return n
            s = s + tok_size(t)
        if s == n:
            return n
        raise NotImplementedError("truncate inside a token")

    def seek(self, off, whence=0):
        if whence == 0 and off == 0:
            self.pos = 0
        elif whence == 2 and off == 0:
            self.pos = len(self.toks)
        elif whence == 0:
            s = 0
            for i, t in enumerate(self.toks):
                if s == off:
                    self.pos = i
                    return off
                s = s + tok_size(t)
            if s == off:
                self.pos = len(self.toks)
                return off
            raise NotImplementedError("seek inside a token")
        else:
            raise NotImplementedError
        return self.tell()

    def tell(self):
        s = 0
        for t in self.toks[: self.pos]:
            s = s + tok_size(t)
        return s

    def seekable(self):
        return True

    def readable(self):
        return True

    def writable(self):
        return True

    # raw reads (sync marker, magic) ---------------------------------------------
    def read(self, n=-1):
        if self.pos >= len(self.toks):
            return b""
        if n is None or n < 0:
            # read to the end (io.BytesIO.read()): everything from the current position on
            rest = TokBytes(self.toks[self.pos:])
            self.pos = len(self.toks)
            return rest
        kind, v = self.toks[self.pos]
        if kind != "raw":
            raise Misaligned(f"raw read of {n} bytes at a {kind} token")
        if len(v) != n:
            if self.pos == len(self.toks) - 1 and len(v) < n and isinstance(v, bytes):
                self.pos += 1
                return v  # short read at end of stream
            raise Misaligned(f"raw read of {n} bytes at a raw token of {len(v)}")
        self.pos += 1
        return v

    # token reads ------------------------------------------------------------------
    def at_end(self):
        return self.pos >= len(self.toks)

    def next_tok(self):
        t = self.toks[self.pos]
        self.pos += 1
        return t


class SeqIn:
    """Read-only sequential input: exposes read() only (pipes, sockets)."""

    def __init__(self, tokio):
        self._t = tokio

    def read(self, n=-1):
        return self._t.read(n)

    def at_end(self):
        return self._t.at_end()

    def next_tok(self):
        return self._t.next_tok()


class SeqOut:
    """Write-only, non-seekable, BUFFERED output (a pipe or socket file object): write(), flush(),
    seekable() -> False.  Data reach the other side only when flush() is called."""

    def __init__(self, tokio):
        self._t = tokio
        self._pending = []

    def write(self, data):
        if isinstance(data, TokBytes):
            if len(data.toks):
                self._pending.append(("raw", data))
            return data.size()
        if isinstance(data, (bytes, bytearray)):
            if len(data):
                self._pending.append(("raw", bytes(data)))
            return len(data)
        if isinstance(data, Packed):
            self._pending.append(("raw", data))
            return len(data)
        raise TypeError(f"a bytes-like object is required, not '{type(data).__name__}'")

    def put(self, tok):
        self._pending.append(tok)

    def flush(self):
        for t in self._pending:
            self._t.put(t)
        self._pending = []

    def seekable(self):
        return False


class Packed:
    """Opaque result of a compressor: invertible, length unknown but fixed."""

    def __init__(self, codec, payload, lo=0, hi=None):
        self.codec, self.payload, self.lo, self.hi = codec, payload, lo, hi

    def __getitem__(self, sl):
        if isinstance(sl, slice) and sl.step is None:
            return Packed(self.codec, self.payload, (self.lo, sl.start), (self.hi, sl.stop))
        raise NotImplementedError

    def __len__(self):
        return 7  # any fixed positive number: the reader must not depend on it

    def __eq__(self, o):
        return (isinstance(o, Packed) and self.codec == o.codec and self.payload == o.payload
                and self.lo == o.lo and self.hi == o.hi)

    __hash__ = None


class _Zlib:
    """stand-in for the zlib module inside _write_py/_read_py"""

    @staticmethod
    def compress(data, level=-1):
        return Packed("zlib", data)

    @staticmethod
    def decompressobj(wbits=15):
        class D:
            def decompress(self, data):
                if (isinstance(data, Packed) and data.codec == "zlib" and wbits == -15
                        and data.lo == (0, 2) and data.hi == (None, -1)):
                    return data.payload
                if isinstance(data, (bytes, TokBytes)) and len(data) == 0:
                    return b""  # zlib: no input, no output (checked against the real module on every replay)
                raise ValueError("invalid deflate data")
        return D()


class _Simple:
    def __init__(self, name):
        self.name = name

    def compress(self, data, *a, **k):
        return Packed(self.name, data)

    def decompress(self, data, *a, **k):
        if isinstance(data, Packed) and data.codec == self.name and data.lo == 0 and data.hi is None:
            return data.payload
        if self.name == "bz2" and isinstance(data, (bytes, TokBytes)) and len(data) == 0:
            return b""  # bz2.decompress(b"") == b"" ; lzma.decompress(b"") raises LZMAError
        raise ValueError("invalid data")


class TokEncoder:
    """Stand-in for fastavro.io.binary_encoder.BinaryEncoder."""

    def __init__(self, fo):
        self._fo = fo

    def flush(self):
        pass

    def write_null(self):
        pass

    def write_boolean(self, datum):
        self._fo.put(("boolean", True if datum else False))

    def write_int(self, datum):
        if not isinstance(datum, int):
            raise TypeError(f"unsupported operand type(s) for <<: '{type(datum).__name__}' and 'int'")
        self._fo.put(("long", datum))

    write_long = write_int

    def write_float(self, datum):
        if not isinstance(datum, (int, float)):
            raise struct.error("required argument is not a float")
        # struct.pack('<f') raises OverflowError for a finite value that rounds to +-inf in binary32
        # (boundary proved against the real encoder by E1: C02 layer 1)
        if datum == datum and datum not in (float("inf"), float("-inf")) and (
                datum >= 3.4028235677973366e38 or datum <= -3.4028235677973366e38):
            raise OverflowError("float too large to pack with f format")
        self._fo.put(("float", float(datum)))  # struct.pack converts an int to a float

    def write_double(self, datum):
        if not isinstance(datum, (int, float)):
            raise struct.error("required argument is not a float")
        self._fo.put(("double", float(datum)))

    def write_bytes(self, datum):
        n = len(datum)
        if not isinstance(datum, (bytes, bytearray)):
            raise TypeError(f"a bytes-like object is required, not '{type(datum).__name__}'")
        self._fo.put(("bytes", bytes(datum) if isinstance(datum, bytearray) else datum))

    def write_utf8(self, datum):
        if not isinstance(datum, str):
            raise TypeError("must be string")
        self._fo.put(("utf8", datum))

    def write_crc32(self, datum):
        self._fo.put(("raw", b"CRC!"))

    def write_fixed(self, datum):
        if not isinstance(datum, (bytes, bytearray)):
            raise TypeError(f"a bytes-like object is required, not '{type(datum).__name__}'")
        self._fo.write(datum)

    def write_enum(self, index):
        self.write_int(index)

    def write_array_start(self):
        pass

    def write_item_count(self, length):
        self.write_long(length)

    def end_item(self):
        pass

    def write_array_end(self):
        self.write_long(0)

    def write_map_start(self):
        pass

    def write_map_end(self):
        self.write_long(0)

    def write_index(self, index, schema=None):
        self.write_long(index)


def make_decoder(real_decoder_cls):
    """TokDecoder subclasses the real BinaryDecoder so that the real block iterator
    (_iter_array_or_map, read_array_start, read_map_start, read_enum, read_index) runs."""

    class TokDecoder(real_decoder_cls):
        def __init__(self, fo):
            self.fo = fo

        def _next(self, *kinds, eof=EOFError):
            if self.fo.at_end():
                raise eof()
            k, v = self.fo.next_tok()
            if k not in kinds:
                raise Misaligned(f"wanted {kinds}, stream has {k}")
            return k, v

        def read_null(self):
            return None

        def read_boolean(self):
            return self._next("boolean", eof=struct.error)[1]

        def read_long(self):
            return self._next("long")[1]

        read_int = read_long

        def read_float(self):
            return self._next("float", eof=struct.error)[1]

        def read_double(self):
            return self._next("double", eof=struct.error)[1]

        def read_bytes(self):
            k, v = self._next("bytes", "utf8", "long")
            if k == "long":
                # length written separately from its payload (container block framing)
                if v == 0:
                    return b""  # an empty payload writes no token
                if self.fo.at_end():
                    raise EOFError(f"Expected {v} bytes, read 0")
                k2, p = self.fo.next_tok()
                if k2 != "raw":
                    raise Misaligned("length prefix not followed by raw payload")
                if isinstance(p, bytes) and len(p) != v:
                    if len(p) < v and self.fo.at_end():
                        raise EOFError(f"Expected {v} bytes, read {len(p)}")
                    raise Misaligned("raw payload length differs from its prefix")
                return p
            return v.encode() if k == "utf8" else v

        def read_utf8(self, handle_unicode_errors="strict"):
            k, v = self._next("bytes", "utf8")
            return v.decode(errors=handle_unicode_errors) if k == "bytes" else v

        def read_fixed(self, size):
            if size == 0:
                return b""
            if self.fo.at_end():
                raise EOFError(f"Expected {size} bytes, read 0")
            k, v = self.fo.next_tok()
            if k != "raw":
                raise Misaligned(f"wanted fixed, stream has {k}")
            if len(v) != size:
                if isinstance(v, bytes) and len(v) < size and self.fo.at_end():
                    raise EOFError(f"Expected {size} bytes, read {len(v)}")
                raise Misaligned(f"fixed({size}) at raw of {len(v)}")
            return v

    return TokDecoder


_installed = {}


def install():
    """Rebind the module globals of fastavro._write_py/_read_py to the stand-ins.
    Returns a dict of the originals (uninstall(orig) restores them)."""
    import fastavro._write_py as W
    import fastavro._read_py as R
    if _installed:
        return _installed
    orig = dict(
        W=dict(BinaryEncoder=W.BinaryEncoder, BytesIO=W.BytesIO, zlib=W.zlib, bz2=W.bz2, lzma=W.lzma),
        R=dict(BinaryDecoder=R.BinaryDecoder, BytesIO=R.BytesIO, zlib=R.zlib, bz2=R.bz2, lzma=R.lzma),
    )
    dec = make_decoder(R.BinaryDecoder)
    W.BinaryEncoder = TokEncoder
    W.BytesIO = TokIO
    W.zlib, W.bz2, W.lzma = _Zlib, _Simple("bz2"), _Simple("lzma")
    R.BinaryDecoder = dec
    R.BytesIO = TokIO
    R.zlib, R.bz2, R.lzma = _Zlib, _Simple("bz2"), _Simple("lzma")
    _installed.update(orig)
    _installed["TokDecoder"] = dec
    return _installed


def uninstall():
    import fastavro._write_py as W
    import fastavro._read_py as R
    if not _installed:
        return
    for k, v in _installed["W"].items():
        setattr(W, k, v)
    for k, v in _installed["R"].items():
        setattr(R, k, v)
    _installed.clear()
