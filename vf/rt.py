"""Runtime shared by E2 harness bodies: the same obligation code runs (a) under
CrossHair above the token stand-ins and (b) concretely on real bytes for replay
and for validating the stand-ins."""
import io
import os
import struct

from . import tok

if os.environ.get("VF_MODE", "tok") == "tok" and os.environ.get("VF_HARNESS") == "1":
    tok.install()


def tokmode():
    return bool(tok._installed)


def new_io():
    return tok.TokIO() if tokmode() else io.BytesIO()


def rewind(fo):
    fo.seek(0)
    return fo


def at_end(fo):
    if isinstance(fo, tok.TokIO):
        return fo.pos == len(fo.toks)
    return fo.tell() == len(fo.getvalue())


def f32(x):
    if tokmode():
        return x
    return struct.unpack("<f", struct.pack("<f", x))[0]


def content(fo):
    """comparable content of a stream"""
    if isinstance(fo, tok.TokIO):
        return list(fo.toks)
    return fo.getvalue()
