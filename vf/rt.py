"""Runtime shared by E2 harness bodies: the same obligation code runs (a) under
CrossHair above the token stand-ins and (b) concretely on real bytes for replay
and for validating the stand-ins."""
import io
import os
import struct

from . import tok

if os.environ.get("VF_MODE", "tok") == "tok" and os.environ.get("VF_HARNESS") == "1":
    tok.install()


def tokmode():
    return bool(tok._installed)


def new_io():
    return tok.TokIO() if tokmode() else io.BytesIO()


def rewind(fo):
    fo.seek(0)
    return fo


def at_end(fo):
    if isinstance(fo, tok.TokIO):
        return fo.pos == len(fo.toks)
    return fo.tell() == len(fo.getvalue())


def f32(x):
    if tokmode():
        return x
    return struct.unpack("<f", struct.pack("<f", x))[0]


def content(fo):
    """comparable content of a stream"""
    if isinstance(fo, tok.TokIO):
        return list(fo.toks)
    return fo.getvalue()


def untraced(fn):
    """Run fn natively (outside CrossHair's tracer).  Only for calls whose arguments are concrete
    in every harness that uses it (schema JSON, header metadata): the real function still runs,
    it is merely not interpreted symbolically."""
    try:
        from crosshair.tracers import NoTracing
    except Exception:
        return fn

    def w(*a, **k):
        with NoTracing():
            return fn(*a, **k)
    w.__name__ = getattr(fn, "__name__", "untraced")
    return w


_fast = []


def fast_concrete_schema_handling():
    """container harnesses: json.dumps/json.loads of the (concrete) schema and parse_schema of the
    (concrete) schema run natively; without this CrossHair re-interprets them on every path."""
    if _fast or not tokmode() or os.environ.get("VF_HARNESS") != "1":
        return
    import json
    import fastavro._write_py as W
    import fastavro._read_py as R
    import fastavro._schema_py as S

    class J:
        dumps = staticmethod(untraced(json.dumps))
        loads = staticmethod(untraced(json.loads))

    W.json = J
    R.json = J
    W.parse_schema = untraced(S.parse_schema)
    R.parse_schema = untraced(S.parse_schema)
    _fast.append(1)
