"""Schema family F: the stated bound on the schema dimension for E2 (DESIGN.md section 4).

Deterministic: every constructor alone, every (outer, inner) constructor pair,
and a curated set of deeper chains, namespaces, references and recursion."""
import copy
import random


def _enum(name="E"):
    return {"type": "enum", "name": name, "symbols": ["A", "B", "C"]}


def _fixed(name="F", size=3):
    return {"type": "fixed", "name": name, "size": size}


def _rec(name, fields, **kw):
    d = {"type": "record", "name": name, "fields": [dict(name=n, type=t, **extra) for (n, t, extra) in fields]}
    d.update(kw)
    return d


def f(name, typ, **extra):
    return (name, typ, extra)


PRIMS = ["null", "boolean", "int", "long", "float", "double", "bytes", "string"]


def inners():
    """(tag, schema factory) for the inner position of a pair; factories give fresh names"""
    return [
        ("int", lambda k: "int"),
        ("long", lambda k: "long"),
        ("string", lambda k: "string"),
        ("bytes", lambda k: "bytes"),
        ("double", lambda k: "double"),
        ("boolean", lambda k: "boolean"),
        ("null", lambda k: "null"),
        ("dictint", lambda k: {"type": "int"}),
        ("enum", lambda k: _enum(f"E{k}")),
        ("fixed", lambda k: _fixed(f"F{k}")),
        ("record", lambda k: _rec(f"In{k}", [f("p", "int"), f("q", "string")])),
        ("array", lambda k: {"type": "array", "items": "int"}),
        ("map", lambda k: {"type": "map", "values": "long"}),
        ("union", lambda k: ["null", "int", "string"]),
    ]


def outers():
    return [
        ("array", lambda s: {"type": "array", "items": s}),
        ("map", lambda s: {"type": "map", "values": s}),
        ("union", lambda s: ["null", s]),
        ("field", lambda s: _rec("Out", [f("a", "int"), f("x", s), f("z", "string")])),
    ]


def family():
    """list of (name, tags, schema)"""
    F = []

    def add(name, schema, *tags):
        F.append((name, set(tags), schema))

    for p in PRIMS:
        add(f"prim_{p}", p, "prim")
    add("prim_dict_long", {"type": "long"}, "prim")
    add("enum", _enum(), "named")
    add("fixed", _fixed(), "named")
    add("rec_empty", _rec("Empty", []), "named", "zero")
    add("rec_flat", _rec("Flat", [f("a", "int"), f("b", "long"), f("s", "string"), f("y", "bytes")]), "named", "rec")
    add("err_type", dict(_rec("Err", [f("code", "int"), f("msg", "string")]), type="error"), "named", "rec")
    add("rec_floats", _rec("Fl", [f("x", "float"), f("d", "double"), f("t", "boolean"), f("n", "null")]), "rec")
    k = 0
    for otag, mk_o in outers():
        for itag, mk_i in inners():
            if otag == "union" and itag in ("union", "null"):
                continue
            k += 1
            add(f"pair_{otag}_{itag}", mk_o(mk_i(k)), "pair", otag, itag)
    # deeper chains
    add("chain_arr_union_map", {"type": "array", "items": ["null", {"type": "map", "values": "long"}]}, "chain")
    add("chain_map_arr_rec", {"type": "map", "values": {"type": "array", "items": _rec("Cr", [f("v", "int")])}}, "chain")
    add("chain_rec_union_rec_arr",
        _rec("Top", [f("u", ["null", _rec("Mid", [f("xs", {"type": "array", "items": "string"})])])]), "chain")
    add("chain_arr_arr", {"type": "array", "items": {"type": "array", "items": "int"}}, "chain")
    add("union_prims", ["int", "string", "null", "boolean"], "union")
    add("union_two_recs", [_rec("Ra", [f("a", "int")]), _rec("Rb", [f("b", "string")])], "union", "unionrec")
    add("union_named_mix", ["null", _enum("Eu"), _fixed("Fu", 2), _rec("Ru", [f("k", "long")])], "union")
    add("union_arr_map", ["null", {"type": "array", "items": "int"}, {"type": "map", "values": "string"}], "union")
    add("union_float_double", ["float", "null", "double"], "union")
    add("union_float_dictdouble", ["null", "float", {"type": "double"}, {"type": "string"}], "union")
    add("union_double_float", _rec("Df", [f("w", ["double", "float"])]), "union")
    add("union_overlap", [_rec("Oa", [f("a", "int"), f("b", ["null", "int"], default=None)]),
                          _rec("Ob", [f("a", "int"), f("c", "string", default="x")])], "union", "unionrec")
    add("union_in_array_named", ["null", {"type": "array", "items": ["null", _enum("Ev"), _rec("Rv", [f("k", "int")])]}],
        "union", "chain")
    add("union_recs_by_ref", _rec("Wrap", [
        f("defs", _rec("Defs", [f("s", _rec("ns.Small", [f("id", "int"), f("x", "int", default=0)])),
                                f("b", _rec("ns.Big", [f("id", "int"), f("x", "int", default=0), f("y", "int", default=0)]))])),
        f("u", ["null", "ns.Small", "ns.Big"])]), "union", "unionrec", "ref")
    add("union_nested_arrays", ["null", {"type": "array", "items": ["int", {"type": "array", "items": "string"}]}],
        "union", "chain")
    add("union_map_rec", [{"type": "map", "values": "int"}, _rec("Rm", [f("a", "int")])], "union", "unionrec")
    add("rec_dictnull", _rec("Dn", [f("n", {"type": "null"}), f("u", [{"type": "null"}, "int"]), f("k", "int")]), "rec")
    add("map_key_is_field", _rec("Mk", [f("k0", "int"), f("m", {"type": "map", "values": "int"}), f("z", "string")]), "rec")
    # defaults / omitted fields
    add("rec_defaults", _rec("Dflt", [f("a", "int", default=7), f("u", ["null", "int"], default=None),
                                      f("r", "long")]), "defaults")
    add("rec_defaults3", _rec("Dflt3", [f("x", ["int", "null"], default=5), f("s", ["string", "null"], default="dd"),
                                        f("k", "int")]), "defaults")
    add("rec_defaults4", _rec("Dflt4", [f("xs", {"type": "array", "items": "int"}, default=[1, 2]),
                                        f("e", _enum("Ed")), f("e2", "Ed", default="A")]), "defaults")
    add("rec_defaults5", _rec("Dflt5", [f("m", {"type": "map", "values": "string"}, default={"k": "v"}), f("k", "int")]),
        "defaults")
    add("rec_defaults6", _rec("Dflt6", [f("first", _enum("Su"), default="A"), f("second", "Su", default="C"), f("third", "Su", default="B"),
                                        f("r1", _rec("In6", [f("v", "int")])), f("r2", "In6", default={"v": 2}),
                                        f("r3", "In6", default={"v": 3})]), "defaults")
    add("rec_defaults7", _rec("Dflt7", [f("k", "int"), f("grid", {"type": "array", "items": {"type": "array", "items": "int"}}, default=[[1, 2], [3]]),
                                        f("idx", {"type": "map", "values": {"type": "array", "items": "string"}}, default={"a": ["x", "y"]})]),
        "nesteddefaults", "heavy")
    add("rec_defaults_bytes", _rec("Dfb", [f("b", "bytes", default="\u00ff\u0001"), f("fx", _fixed("Fdb", 2), default="\u0000\u00fe"),
                                           f("fl", "float", default=1.5), f("k", "int", default=7)]), "bytesdefault")
    add("rec_defaults2", _rec("Dflt2", [f("s", "string", default="dd"), f("r", "int"),
                                        f("e", _enum("De"), default="B")]), "defaults")
    # logical types with optional attributes left out
    add("logical_noscale", _rec("Lg", [f("d", {"type": "bytes", "logicalType": "decimal", "precision": 5}),
                                       f("x", {"type": "fixed", "name": "Fd", "size": 4, "logicalType": "decimal", "precision": 4}),
                                       f("t", {"type": "long", "logicalType": "timestamp-millis"}), f("k", "int")]), "logical")
    # a named type defined in the schema that is not a branch of the union next to it
    add("hint_foreign", _rec("Hf", [f("p", _rec("Person", [f("name", "string")])),
                                    f("u", ["null", _rec("Locker", [f("n", "int")]), _rec("Addr2", [f("street", "string")])])]),
        "union", "unionrec")
    # two named branches with the same short name in different namespaces (a hint must name the branch exactly)
    add("union_same_short_names", [_rec("audit.Event", [f("id", "int", default=0)]), _rec("Event", [f("msg", "string", default="m")]), "null"],
        "union", "unionrec", "ambiguous")
    add("union_enum_two_similar_recs", [_enum("Ez"), _rec("Rs1", [f("x", "int")]), _rec("Rs2", [f("x", "int")])], "union", "unionrec", "ambiguous")
    # named branches that accept the same value: only (name, value) reporting tells them apart
    add("union_two_enums_one_rec", [dict(_enum("Ea"), symbols=["A", "B"]), dict(_enum("Eb"), symbols=["B", "C"]),
                                    _rec("Rq", [f("k", "int")]), _fixed("Fq", 1)], "union", "ambiguous")
    # record branches that a datum can match without supplying any of their fields
    add("union_rec_alldefault", ["null", _rec("Opts", [f("level", "int", default=3), f("tag", "string", default="t")])],
        "union", "defaults", "unionrec")
    add("union_empty_rec", ["int", _rec("Emp", []), "string"], "union", "unionrec", "zero")
    # an enum that declares a default symbol (a reader-side attribute: writing/validating must not be affected by it)
    add("enum_default", dict(_enum("Edf"), default="B"), "named", "enumdefault")
    add("rec_enum_default", _rec("Red", [f("e", dict(_enum("Edr"), default="A")), f("u", ["null", "Edr"]), f("k", "int")]),
        "rec", "enumdefault")
    # references and namespaces
    add("rec_two_children", _rec("Par", [f("a", _rec("ChA", [f("x", "int")])), f("b", _rec("ChB", [f("y", "string"), f("e", _enum("ChE"))])),
                                        f("again", "ChA"), f("e2", "ChE")], namespace="fam"), "ref")
    add("err_nested", _rec("Reply", [f("failure", dict(_rec("Failure", [f("code", _enum("Code")), f("msg", "string")]), type="error")),
                                     f("again", "Code"), f("codes", {"type": "array", "items": "rpc.Code"})], namespace="rpc"), "ref", "rec", "heavy")
    add("map_named_twice", _rec("Mt", [f("one", _rec("It", [f("v", "int")])), f("m", {"type": "map", "values": "It"}),
                                      f("again", "It")]), "ref", "heavy")
    add("map_defines_named", _rec("Md", [f("m", {"type": "map", "values": _enum("Em")}), f("e", "Em"),
                                        f("xs", {"type": "array", "items": "Em"})]), "ref", "heavy")
    add("ref_after_def", _rec("Ref", [f("first", _rec("Pt", [f("x", "int")])), f("second", "Pt"),
                                     f("many", {"type": "array", "items": "Pt"})]), "ref")
    add("ns_inherit", _rec("Outer", [f("in", _rec("Inner", [f("v", "int")])), f("again", "Inner"),
                                    f("e", _enum("Col")), f("e2", "n1.Col")], namespace="n1"), "ns", "ref")
    add("ns_dotted", _rec("a.b.Dot", [f("x", _fixed("Fx", 2)), f("y", "a.b.Fx"), f("z", "Fx")]), "ns", "ref")
    add("ns_switch", _rec("P", [f("c", _rec("C", [f("g", _rec("G", [f("v", "int")]))], namespace="n2")),
                               f("gref", "n2.G")], namespace="n1"), "ns", "ref")
    add("ns_null", _rec("Q", [f("c", dict(_rec("Cn", [f("v", "int"), f("e", _enum("En")), f("e2", "En")]),
                                          namespace="")), f("w", "int")],
                        namespace="n3"), "ns", "ref")
    # recursion
    add("rec_list", _rec("LL", [f("v", "int"), f("next", ["null", "LL"])]), "recursive")
    add("rec_tree", _rec("Tree", [f("v", "int"), f("kids", {"type": "array", "items": "Tree"})]), "recursive")
    add("rec_mutual", _rec("Ma", [f("b", ["null", _rec("Mb", [f("a", ["null", "Ma"]), f("v", "int")])])]), "recursive")
    add("rec_map_self", _rec("Ms", [f("m", {"type": "map", "values": "Ms"})]), "recursive")
    return F


def select(tier, seed, want=None, extra_tags=()):
    """quick: a seed-chosen subset (always containing one schema per tag class);
    thorough: all of F."""
    F = family()
    if want is not None:
        F = [x for x in F if want(x)]
    if tier == "thorough":
        # schemas pinned to a known defect or needing their own oracle are used only by the checks that list them
        return [x for x in F if "bytesdefault" not in x[1] and "logical" not in x[1]]
    rng = random.Random(seed)
    must = {}
    for x in F:
        if "heavy" in x[1] or "logical" in x[1] or "bytesdefault" in x[1]:
            continue  # symbolic maps of named types: explored by the checks that list them explicitly (C12), thorough elsewhere
        for t in x[1]:
            must.setdefault(t, []).append(x)
    chosen = {}
    for t in sorted(must):
        if t in ("pair", "array", "map", "union", "field") or t in [i[0] for i in inners()]:
            continue
        x = rng.choice(must[t])
        chosen[x[0]] = x
    for x in F:
        if "defaults" in x[1]:
            chosen[x[0]] = x
    pairs = [x for x in F if "pair" in x[1]]
    rng.shuffle(pairs)
    for x in pairs[:8]:
        chosen[x[0]] = x
    return [chosen[k] for k in sorted(chosen)]


def fresh(schema):
    return copy.deepcopy(schema)
