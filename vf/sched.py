"""E3: schedule encoder.  Shared-cell access traces of concurrently running operations are merged by symbolic
position variables; z3 searches for an interleaving in which a read observes another thread's write whose value
makes the reading operation's result differ from its sequential result."""
import time
import z3


class Ev:
    def __init__(self, thread, kind, cell, value=None, label=""):
        self.thread, self.kind, self.cell, self.value, self.label = thread, kind, cell, value, label


def find_race(traces, observable, extra=(), timeout_ms=60000):
    """traces: {thread: [Ev, ...]} in program order (W events carry a z3 value term).
    observable(read_event, observed_value_term, own_value_term) -> z3 Bool: 'observing this value instead of the
    thread's own changes the operation's result'.  Returns (status, model info, stats)."""
    s = z3.Solver()
    s.set("timeout", timeout_ms)
    pos = {}
    evs = []
    for t, tr in traces.items():
        for i, e in enumerate(tr):
            e.idx = i
            pos[e] = z3.Int(f"pos_{t}_{i}")
            evs.append(e)
    n = len(evs)
    for e in evs:
        s.add(pos[e] >= 0, pos[e] < n)
    s.add(z3.Distinct(*[pos[e] for e in evs]))
    for t, tr in traces.items():
        for a, b in zip(tr, tr[1:]):
            s.add(pos[a] < pos[b])
    for c in extra:
        s.add(c)
    disj = []
    tags = []
    for r in evs:
        if r.kind != "R":
            continue
        own = None
        for e in traces[r.thread][: r.idx]:
            if e.kind == "W" and e.cell == r.cell:
                own = e
        if own is None:
            continue
        writes = [w for w in evs if w.kind == "W" and w.cell == r.cell]
        for w in writes:
            if w.thread == r.thread:
                continue
            last = z3.And(pos[w] < pos[r], *[z3.Or(pos[w2] < pos[w], pos[w2] > pos[r]) for w2 in writes if w2 is not w])
            cond = z3.And(last, observable(r, w.value, own.value))
            b = z3.Bool(f"race_{len(tags)}")
            s.add(b == cond)
            disj.append(b)
            tags.append((r, w))
    stats = dict(events=n, candidate_pairs=len(tags))
    if not disj:
        return "no-conflict", None, stats
    s.add(z3.Or(*disj))
    t0 = time.time()
    res = s.check()
    stats["solver_s"] = time.time() - t0
    if res == z3.unsat:
        return "unsat", None, stats
    if res != z3.sat:
        return "unknown", None, stats
    m = s.model()
    order = sorted(evs, key=lambda e: m.eval(pos[e]).as_long())
    hit = [(r, w) for b, (r, w) in zip(disj, tags) if z3.is_true(m.eval(b))]
    return "sat", dict(model=m, order=order, hit=hit), stats


# ---------------------------------------------------------------------------------------------------------
# generic reads-from exploration over recorded access traces (vf.conc events)
# ---------------------------------------------------------------------------------------------------------

def relevant(traces):
    """keep the events on cells that some thread writes"""
    wl = {}
    for tr in traces.values():
        for e in tr:
            if e.kind == "W":
                wl.setdefault(e.label, []).append(e)
    out = {}
    for t, tr in traces.items():
        out[t] = [e for e in tr if e.label in wl and any(e.conflicts(w) for w in wl[e.label])]
    return out


def candidates(traces):
    """(read, foreign write) pairs in which the read could observe a value it does not observe when its operation
    runs alone: the foreign write's value differs from the value the read saw in the solo recording (or either side
    concerns the whole object)"""
    out = []
    for t, tr in traces.items():
        for r in tr:
            if r.kind != "R":
                continue
            for t2, tr2 in traces.items():
                if t2 == t:
                    continue
                for w in tr2:
                    if w.kind == "W" and w.conflicts(r) and (r.key is None or w.key is None or w.val != r.val):
                        out.append((r, w))
    return out


def schedule_with(traces, r, w, timeout_ms=20000):
    """z3: an interleaving (total order respecting each thread's program order) in which read r observes write w,
    i.e. w precedes r and no other write to the cell lies between them.  Tried first in the two simplest shapes
    (reader's prefix, writer up to w, read / writer up to w, reader from the start), then unconstrained.
    Returns (status, order, stats)."""
    evs = [e for tr in traces.values() for e in tr]
    pos = {id(e): z3.Int(f"p_{e.thread}_{e.idx}") for e in evs}
    base = [z3.Distinct(*pos.values())] if len(evs) > 1 else []
    for e in evs:
        base += [pos[id(e)] >= 0, pos[id(e)] < len(evs)]
    for tr in traces.values():
        for a, b in zip(tr, tr[1:]):
            base.append(pos[id(a)] < pos[id(b)])
    base.append(pos[id(w)] < pos[id(r)])
    for w2 in evs:
        if w2.kind == "W" and w2 is not w and w2.conflicts(r):
            base.append(z3.Or(pos[id(w2)] < pos[id(w)], pos[id(w2)] > pos[id(r)]))
    tr_r, tr_w = traces[r.thread], traces[w.thread]
    shape1 = [pos[id(e)] < pos[id(tr_w[0])] for e in tr_r if e.idx < r.idx] + [pos[id(e)] > pos[id(r)] for e in tr_w if e.idx > w.idx]
    shape2 = [pos[id(e)] < pos[id(tr_r[0])] for e in tr_w if e.idx <= w.idx] + [pos[id(e)] > pos[id(r)] for e in tr_w if e.idx > w.idx]
    stats = dict(events=len(evs), queries=0, solver_s=0.0)
    last = "unsat"
    for extra in (shape1, shape2, []):
        s = z3.Solver()
        s.set("timeout", timeout_ms)
        s.add(*base)
        s.add(*extra)
        t0 = time.time()
        res = s.check()
        stats["queries"] += 1
        stats["solver_s"] += time.time() - t0
        if res == z3.sat:
            m = s.model()
            order = sorted(evs, key=lambda e: m.eval(pos[id(e)], model_completion=True).as_long())
            return "sat", order, stats
        if res != z3.unsat:
            last = "unknown"
    return last, None, stats


def plan_of(order, hit, traces):
    """line-gated plan [(thread, stop)] realising `order` up to and including the event `hit`: each thread runs its
    consecutive events and pauses before its next relevant event (stop = that event's line occurrence; None = run to
    completion when it has none); after the hit its thread runs on to completion, then the others."""
    segs = []
    for e in order:
        if segs and segs[-1][0] == e.thread:
            segs[-1][1].append(e)
        else:
            segs.append((e.thread, [e]))
        if e is hit:
            break
    plan = []
    for (t, es) in segs:
        last = es[-1]
        tr = traces[t]
        k = tr.index(last)
        nxt = tr[k + 1] if k + 1 < len(tr) else None
        plan.append((t, (nxt.file, nxt.line, nxt.occ) if nxt is not None else None))
    if plan:
        plan[-1] = (plan[-1][0], None)
    return plan
