"""E3: schedule encoder.  Shared-cell access traces of concurrently running operations are merged by symbolic
position variables; z3 searches for an interleaving in which a read observes another thread's write whose value
makes the reading operation's result differ from its sequential result."""
import time
import z3


class Ev:
    def __init__(self, thread, kind, cell, value=None, label=""):
        self.thread, self.kind, self.cell, self.value, self.label = thread, kind, cell, value, label


def find_race(traces, observable, extra=(), timeout_ms=60000):
    """traces: {thread: [Ev, ...]} in program order (W events carry a z3 value term).
    observable(read_event, observed_value_term, own_value_term) -> z3 Bool: 'observing this value instead of the
    thread's own changes the operation's result'.  Returns (status, model info, stats)."""
    s = z3.Solver()
    s.set("timeout", timeout_ms)
    pos = {}
    evs = []
    for t, tr in traces.items():
        for i, e in enumerate(tr):
            e.idx = i
            pos[e] = z3.Int(f"pos_{t}_{i}")
            evs.append(e)
    n = len(evs)
    for e in evs:
        s.add(pos[e] >= 0, pos[e] < n)
    s.add(z3.Distinct(*[pos[e] for e in evs]))
    for t, tr in traces.items():
        for a, b in zip(tr, tr[1:]):
            s.add(pos[a] < pos[b])
    for c in extra:
        s.add(c)
    disj = []
    tags = []
    for r in evs:
        if r.kind != "R":
            continue
        own = None
        for e in traces[r.thread][: r.idx]:
            if e.kind == "W" and e.cell == r.cell:
                own = e
        if own is None:
            continue
        writes = [w for w in evs if w.kind == "W" and w.cell == r.cell]
        for w in writes:
            if w.thread == r.thread:
                continue
            last = z3.And(pos[w] < pos[r], *[z3.Or(pos[w2] < pos[w], pos[w2] > pos[r]) for w2 in writes if w2 is not w])
            cond = z3.And(last, observable(r, w.value, own.value))
            b = z3.Bool(f"race_{len(tags)}")
            s.add(b == cond)
            disj.append(b)
            tags.append((r, w))
    stats = dict(events=n, candidate_pairs=len(tags))
    if not disj:
        return "no-conflict", None, stats
    s.add(z3.Or(*disj))
    t0 = time.time()
    res = s.check()
    stats["solver_s"] = time.time() - t0
    if res == z3.unsat:
        return "unsat", None, stats
    if res != z3.sat:
        return "unknown", None, stats
    m = s.model()
    order = sorted(evs, key=lambda e: m.eval(pos[e]).as_long())
    hit = [(r, w) for b, (r, w) in zip(disj, tags) if z3.is_true(m.eval(b))]
    return "sat", dict(model=m, order=order, hit=hit), stats
