"""E3 front end: shared-state access traces of the real code, for the schedule encoder.

The current source of every pure-Python fastavro module is re-read and rewritten (ast.NodeTransformer) so that every
attribute load/store, subscript load/store/delete, `in` test, iteration and call goes through a hook that *executes the
operation unchanged* and, when the object operated on is process-wide shared state, records an access event

    (thread, index, R|W, cell = (object identity, key), value fingerprint, file, line, line-occurrence)

"Shared" is decided dynamically by object identity: everything mutable reachable from the module globals of the
instrumented modules (registries, caches, contexts), from mutable default arguments of their functions, from the
objects a scenario declares as shared between its threads (parsed schemas), and everything later stored into such an
object.  The rewritten modules are executed as sibling modules (their own copies of the module-level state), one
fresh "world" per recording, so every operation is recorded from the initial state of the library.

The traces feed vf.sched (z3: which interleavings make a read observe another thread's write); a schedule found by the
solver is replayed on the *unmodified* modules by real threads that are gated at line boundaries (sys.settrace) -
see replay_plan()."""
import ast
import hashlib
import importlib
import inspect
import os
import sys
import threading
import types

HOOK = "__cx__"
MODULES = [
    "fastavro.const", "fastavro.types", "fastavro._schema_common", "fastavro._read_common", "fastavro._write_common",
    "fastavro._validate_common", "fastavro.io.symbols", "fastavro.io.parser", "fastavro.io.binary_encoder",
    "fastavro.io.binary_decoder", "fastavro.io.json_encoder", "fastavro.io.json_decoder", "fastavro.repository.base",
    "fastavro.repository.flat_dict", "fastavro._logical_readers_py", "fastavro._logical_writers_py", "fastavro._schema_py",
    "fastavro._validation_py", "fastavro._read_py", "fastavro._write_py", "fastavro.json_read", "fastavro.json_write",
    "fastavro.utils",
]
REPO = os.environ.get("VF_REPO", "/repo")


class NotInstrumentable(Exception):
    pass


# ---------------------------------------------------------------------------------------------------------
# rewriter
# ---------------------------------------------------------------------------------------------------------

def _h(name):
    return ast.Attribute(value=ast.Name(id=HOOK, ctx=ast.Load()), attr=name, ctx=ast.Load())


def _c(v):
    return ast.Constant(value=v)


class ConcRewriter(ast.NodeTransformer):
    def __init__(self):
        self.n = 0

    def tmp(self):
        self.n += 1
        return f"__cx_t{self.n}"

    # loads ------------------------------------------------------------------------------------------------
    def visit_Attribute(self, node):
        self.generic_visit(node)
        if isinstance(node.ctx, ast.Load):
            return ast.copy_location(ast.Call(func=_h("ga"), args=[node.value, _c(node.attr), _c(node.lineno)], keywords=[]), node)
        return node

    def visit_Subscript(self, node):
        self.generic_visit(node)
        if isinstance(node.ctx, ast.Load):
            return ast.copy_location(ast.Call(func=_h("gi"), args=[node.value, self._key(node.slice), _c(node.lineno)], keywords=[]), node)
        return node

    def _key(self, sl):
        if isinstance(sl, ast.Slice):
            return ast.Call(func=ast.Name(id="slice", ctx=ast.Load()),
                            args=[x if x is not None else _c(None) for x in (sl.lower, sl.upper, sl.step)], keywords=[])
        return sl

    def visit_Call(self, node):
        # method call: keep receiver and method name visible to the hook
        if isinstance(node.func, ast.Attribute):
            recv = self.visit(node.func.value)
            args = [self.visit(a) for a in node.args]
            kws = [ast.keyword(arg=k.arg, value=self.visit(k.value)) for k in node.keywords]
            new = ast.Call(func=_h("cm"), args=[recv, _c(node.func.attr), _c(node.lineno)] + args, keywords=kws)
            return ast.copy_location(new, node)
        if isinstance(node.func, ast.Name) and node.func.id in ("super", "locals", "globals", "vars", "eval", "exec"):
            self.generic_visit(node)
            return node
        self.generic_visit(node)
        new = ast.Call(func=_h("cf"), args=[node.func, _c(node.lineno)] + node.args, keywords=node.keywords)
        return ast.copy_location(new, node)

    def visit_Compare(self, node):
        self.generic_visit(node)
        if len(node.ops) == 1 and isinstance(node.ops[0], (ast.In, ast.NotIn)):
            call = ast.Call(func=_h("contains"), args=[node.left, node.comparators[0], _c(node.lineno)], keywords=[])
            if isinstance(node.ops[0], ast.NotIn):
                call = ast.UnaryOp(op=ast.Not(), operand=call)
            return ast.copy_location(call, node)
        return node

    def visit_For(self, node):
        self.generic_visit(node)
        node.iter = ast.copy_location(ast.Call(func=_h("it"), args=[node.iter, _c(node.lineno)], keywords=[]), node.iter)
        return node

    def visit_comprehension(self, node):
        self.generic_visit(node)
        node.iter = ast.copy_location(ast.Call(func=_h("it"), args=[node.iter, _c(getattr(node.iter, "lineno", 0))], keywords=[]), node.iter)
        return node

    # stores -----------------------------------------------------------------------------------------------
    def _store(self, target, value_name, lineno):
        """statement(s) assigning Name(value_name) to target"""
        val = ast.Name(id=value_name, ctx=ast.Load())
        if isinstance(target, ast.Attribute):
            obj = self.visit(target.value)
            return [ast.Expr(ast.Call(func=_h("sa"), args=[obj, _c(target.attr), val, _c(lineno)], keywords=[]))]
        if isinstance(target, ast.Subscript):
            obj = self.visit(target.value)
            key = self._key(self.visit(target.slice) if not isinstance(target.slice, ast.Slice) else target.slice)
            return [ast.Expr(ast.Call(func=_h("si"), args=[obj, key, val, _c(lineno)], keywords=[]))]
        if isinstance(target, (ast.Tuple, ast.List)):
            # unpack into temporaries first, then store element-wise (left to right, as Python does)
            later = []
            elts = []
            for e in target.elts:
                inner = e.value if isinstance(e, ast.Starred) else e
                if isinstance(inner, (ast.Attribute, ast.Subscript, ast.Tuple, ast.List)):
                    t = self.tmp()
                    nm = ast.Name(id=t, ctx=ast.Store())
                    elts.append(ast.Starred(value=nm, ctx=ast.Store()) if isinstance(e, ast.Starred) else nm)
                    later.append((inner, t))
                else:
                    elts.append(e)
            out = [ast.Assign(targets=[type(target)(elts=elts, ctx=ast.Store())], value=val)]
            for inner, t in later:
                out += self._store(inner, t, lineno)
            return out
        return [ast.Assign(targets=[target], value=val)]

    def visit_Assign(self, node):
        simple = all(isinstance(t, ast.Name) for t in node.targets)
        if simple:
            self.generic_visit(node)
            return node
        value = self.visit(node.value)
        t = self.tmp()
        out = [ast.Assign(targets=[ast.Name(id=t, ctx=ast.Store())], value=value)]
        for tg in node.targets:
            out += self._store(tg, t, node.lineno)
        return [ast.copy_location(s, node) for s in out]

    def visit_AnnAssign(self, node):
        if node.value is None or isinstance(node.target, ast.Name):
            self.generic_visit(node)
            return node
        value = self.visit(node.value)
        t = self.tmp()
        out = [ast.Assign(targets=[ast.Name(id=t, ctx=ast.Store())], value=value)] + self._store(node.target, t, node.lineno)
        return [ast.copy_location(s, node) for s in out]

    def visit_AugAssign(self, node):
        if isinstance(node.target, ast.Name):
            self.generic_visit(node)
            return node
        value = self.visit(node.value)
        tg = node.target
        to, tk, tv = self.tmp(), self.tmp(), self.tmp()
        out = []
        if isinstance(tg, ast.Attribute):
            out.append(ast.Assign(targets=[ast.Name(id=to, ctx=ast.Store())], value=self.visit(tg.value)))
            cur = ast.Call(func=_h("ga"), args=[ast.Name(id=to, ctx=ast.Load()), _c(tg.attr), _c(node.lineno)], keywords=[])
            out.append(ast.Assign(targets=[ast.Name(id=tv, ctx=ast.Store())], value=ast.BinOp(left=cur, op=node.op, right=value)))
            out.append(ast.Expr(ast.Call(func=_h("sa"), args=[ast.Name(id=to, ctx=ast.Load()), _c(tg.attr),
                                                             ast.Name(id=tv, ctx=ast.Load()), _c(node.lineno)], keywords=[])))
        elif isinstance(tg, ast.Subscript):
            out.append(ast.Assign(targets=[ast.Name(id=to, ctx=ast.Store())], value=self.visit(tg.value)))
            out.append(ast.Assign(targets=[ast.Name(id=tk, ctx=ast.Store())], value=self._key(self.visit(tg.slice))))
            cur = ast.Call(func=_h("gi"), args=[ast.Name(id=to, ctx=ast.Load()), ast.Name(id=tk, ctx=ast.Load()), _c(node.lineno)], keywords=[])
            out.append(ast.Assign(targets=[ast.Name(id=tv, ctx=ast.Store())], value=ast.BinOp(left=cur, op=node.op, right=value)))
            out.append(ast.Expr(ast.Call(func=_h("si"), args=[ast.Name(id=to, ctx=ast.Load()), ast.Name(id=tk, ctx=ast.Load()),
                                                             ast.Name(id=tv, ctx=ast.Load()), _c(node.lineno)], keywords=[])))
        else:
            raise NotInstrumentable(f"augmented assignment target at line {node.lineno}")
        return [ast.copy_location(s, node) for s in out]

    def visit_Delete(self, node):
        out = []
        for tg in node.targets:
            if isinstance(tg, ast.Subscript):
                out.append(ast.Expr(ast.Call(func=_h("di"), args=[self.visit(tg.value), self._key(self.visit(tg.slice)), _c(node.lineno)], keywords=[])))
            elif isinstance(tg, ast.Attribute):
                out.append(ast.Expr(ast.Call(func=_h("da"), args=[self.visit(tg.value), _c(tg.attr), _c(node.lineno)], keywords=[])))
            else:
                out.append(ast.Delete(targets=[tg]))
        return [ast.copy_location(s, node) for s in out]


# ---------------------------------------------------------------------------------------------------------
# recorder (the hook object of one world)
# ---------------------------------------------------------------------------------------------------------
_MISSING = ("<missing>",)
DICT_W = {"__setitem__", "setdefault", "pop", "popitem", "clear", "update", "__delitem__"}
LIST_W = {"append", "extend", "insert", "pop", "remove", "clear", "sort", "reverse", "__setitem__", "__delitem__"}
SET_W = {"add", "discard", "remove", "pop", "clear", "update", "difference_update", "intersection_update",
         "symmetric_difference_update"}
KEYED = {"get", "pop", "setdefault", "__contains__", "__getitem__", "__setitem__", "__delitem__"}
_ATOM = (str, bytes, int, float, bool, type(None), complex, frozenset, type, types.FunctionType, types.BuiltinFunctionType,
         types.ModuleType, types.MethodType)


def fp(v, depth=0):
    """value fingerprint (structural, bounded depth)"""
    if isinstance(v, (str, bytes, int, float, bool, type(None))):
        return repr(v)
    if depth > 3:
        return type(v).__name__
    if isinstance(v, dict):
        return "{" + ",".join(f"{fp(k, depth + 1)}:{fp(x, depth + 1)}" for k, x in list(v.items())[:40]) + "}"
    if isinstance(v, (list, tuple)):
        return type(v).__name__ + "[" + ",".join(fp(x, depth + 1) for x in list(v)[:40]) + "]"
    if isinstance(v, (set, frozenset)):
        return "set[" + ",".join(sorted(fp(x, depth + 1) for x in v)) + "]"
    d = getattr(v, "__dict__", None)
    if isinstance(d, dict) and not isinstance(v, (type, types.ModuleType, types.FunctionType)):
        return type(v).__name__ + fp(d, depth + 1)
    if type(v).__module__ == "decimal" and type(v).__name__ == "Context":
        return f"Context(prec={v.prec},rounding={v.rounding})"
    return type(v).__name__


class Event:
    """cells are named by label (the access path from a module global / shared argument), so that traces recorded in
    different worlds can be matched; key None stands for the whole object"""
    __slots__ = ("thread", "idx", "kind", "label", "key", "val", "file", "line", "occ", "what")

    def __init__(self, thread, idx, kind, label, key, val, file, line, occ, what):
        self.thread, self.idx, self.kind, self.label, self.key, self.val = thread, idx, kind, label, key, val
        self.file, self.line, self.occ, self.what = file, line, occ, what

    def conflicts(self, o):
        return self.label == o.label and (self.key is None or o.key is None or self.key == o.key)

    def __repr__(self):
        return f"{self.thread}#{self.idx}:{self.kind}:{self.what}[{self.key}]={self.val}@{os.path.basename(self.file)}:{self.line}#{self.occ}"


class Recorder:
    """hook object of one instrumented world"""

    def __init__(self):
        self.shared = {}  # id -> (object kept alive, label)
        self.events = {}  # thread name -> [Event]
        self.active = False
        self.linecount = {}  # thread name -> {(file, line): n}
        self.curline = {}  # thread name -> (file, line, occ)
        self.lock = threading.RLock()

    # -- shared set -------------------------------------------------------------------------------------
    def mark(self, obj, label, depth=0):
        if isinstance(obj, _ATOM) or depth > 12:
            return
        i = id(obj)
        if i in self.shared:
            return
        if isinstance(obj, dict):
            self.shared[i] = (obj, label)
            for k, v in list(obj.items()):
                self.mark(v, f"{label}[{k!r}]" if isinstance(k, (str, int)) else label + "[..]", depth + 1)
        elif isinstance(obj, list):
            self.shared[i] = (obj, label)
            for j, v in enumerate(list(obj)):
                self.mark(v, f"{label}[{j}]", depth + 1)
        elif isinstance(obj, (set, bytearray)) or type(obj).__name__ in ("deque", "array"):
            self.shared[i] = (obj, label)
        elif isinstance(obj, tuple):
            for j, v in enumerate(obj):
                self.mark(v, f"{label}({j})", depth + 1)
        elif type(obj).__module__ in ("_io", "io"):
            self.shared[i] = (obj, label)  # an in-memory stream kept in shared state (a buffer pool)
        else:
            d = getattr(obj, "__dict__", None)
            if isinstance(obj, (type,)) or callable(obj) and not hasattr(obj, "__dict__"):
                return
            mod = type(obj).__module__
            if isinstance(d, dict) or mod in ("decimal", "_pydecimal", "collections"):
                if isinstance(obj, (types.FunctionType, types.ModuleType, type)):
                    return
                self.shared[i] = (obj, label)
                if isinstance(d, dict):
                    for k, v in list(d.items()):
                        self.mark(v, f"{label}.{k}", depth + 1)

    def label(self, obj):
        e = self.shared.get(id(obj))
        return e[1] if e else None

    # -- events -------------------------------------------------------------------------------------------
    def ev(self, kind, obj, key, val, line, what=None):
        if not self.active:
            return
        e = self.shared.get(id(obj))
        if e is None:
            return
        t = threading.current_thread().name
        with self.lock:
            lst = self.events.setdefault(t, [])
            f, l, occ = self.curline.get(t, ("?", line, 0))
            kf = None
            if key is not None:
                try:
                    hash(key)
                    kf = repr(key) if isinstance(key, (str, int, bytes, bool, float, type(None), tuple)) else None
                except TypeError:
                    kf = None
            lst.append(Event(t, len(lst), kind, e[1], kf, fp(val), f, l, occ, what or e[1]))

    # -- hooks ----------------------------------------------------------------------------------------------
    def ga(self, obj, name, line):
        v = getattr(obj, name)
        if id(obj) in self.shared and not callable(v):
            self.ev("R", obj, name, v, line)
        return v

    def sa(self, obj, name, val, line):
        if id(obj) in self.shared:
            self.ev("W", obj, name, val, line)
            self.mark(val, f"{self.label(obj)}.{name}")
        setattr(obj, name, val)

    def da(self, obj, name, line):
        if id(obj) in self.shared:
            self.ev("W", obj, name, _MISSING, line)
        delattr(obj, name)

    def gi(self, obj, key, line):
        if id(obj) in self.shared:
            try:
                v = obj[key]
            except Exception:
                self.ev("R", obj, key, _MISSING, line)
                raise
            self.ev("R", obj, key, v, line)
            return v
        return obj[key]

    def si(self, obj, key, val, line):
        if id(obj) in self.shared:
            self.ev("W", obj, key, val, line)
            self.mark(val, f"{self.label(obj)}[{key!r}]" if isinstance(key, (str, int)) else f"{self.label(obj)}[..]")
        obj[key] = val

    def di(self, obj, key, line):
        if id(obj) in self.shared:
            self.ev("W", obj, key, _MISSING, line)
        del obj[key]

    def contains(self, item, container, line):
        r = item in container
        if id(container) in self.shared:
            self.ev("R", container, item, r, line)
        return r

    def it(self, obj, line):
        if id(obj) in self.shared:
            self.ev("R", obj, None, obj, line)
        return obj

    def _args_read(self, f, args, kwargs, line):
        """a shared object handed to code that is not instrumented (builtins, C, stdlib) is read as a whole"""
        if not self.shared:
            return
        code = getattr(f, "__code__", None)
        if code is not None and getattr(f, "__module__", "") and str(getattr(f, "__module__", "")).startswith("fastavro"):
            return
        if f in (isinstance, id, type, callable):
            return
        for a in list(args) + list(kwargs.values()):
            if id(a) in self.shared:
                self.ev("R", a, None, a, line, what=f"{self.label(a)} -> {getattr(f, '__name__', '?')}()")

    def cf(self, f, line, *args, **kwargs):
        if id(f) in self.shared and not isinstance(f, (types.FunctionType, type)):
            # a stateful callable object held in a module global (functools.lru_cache wrapper, partial over a
            # mutable object, instance with __call__): opaque - calling it may read and update its state
            self.ev("R", f, None, f, line, what=f"{self.label(f)}()")
            self.ev("W", f, None, _MISSING, line, what=f"{self.label(f)}()")
        self._args_read(f, args, kwargs, line)
        return f(*args, **kwargs)

    def cm(self, recv, name, line, *args, **kwargs):
        if id(recv) in self.shared:
            key = args[0] if (name in KEYED and args) else None
            if isinstance(recv, dict):
                w = name in DICT_W
            elif isinstance(recv, (list, bytearray)) or type(recv).__name__ in ("deque", "array"):
                w = name in LIST_W or name in ("appendleft", "popleft", "extendleft", "rotate", "fromlist", "frombytes")
            elif isinstance(recv, set):
                w = name in SET_W
            elif type(recv).__module__ in ("_io", "io"):
                w = name not in ("getvalue", "tell", "seekable", "readable", "writable", "getbuffer", "closed", "fileno", "isatty")
                if w:
                    self.ev("R", recv, None, recv, line)
            else:
                w = False
            m = getattr(recv, name)
            if w:
                if name in ("setdefault", "pop"):
                    self.ev("R", recv, key, recv.get(key, _MISSING) if isinstance(recv, dict) else recv, line)
                val = args[1] if (name in ("__setitem__", "setdefault") and len(args) > 1) else (args[0] if args and name in ("append", "add") else _MISSING)
                self.ev("W", recv, key, val, line)
                for a in args:
                    self.mark(a, f"{self.label(recv)}.{name}()")
                return m(*args, **kwargs)
            r = m(*args, **kwargs)
            self.ev("R", recv, key, r if name in KEYED else recv, line)
            return r
        m = getattr(recv, name)
        self._args_read(m, args, kwargs, line)
        return m(*args, **kwargs)


# ---------------------------------------------------------------------------------------------------------
# worlds
# ---------------------------------------------------------------------------------------------------------
_SRC = {}  # module -> (path, source, sha1, compiled code)


def _compiled(modname):
    if modname in _SRC:
        return _SRC[modname]
    real = importlib.import_module(modname)
    path = inspect.getsourcefile(real)
    src = open(path).read()
    tree = ast.parse(src, filename=path)
    tree = ConcRewriter().visit(tree)
    ast.fix_missing_locations(tree)
    code = compile(tree, path, "exec")
    _SRC[modname] = (path, src, hashlib.sha1(src.encode()).hexdigest(), code, real)
    return _SRC[modname]


class World:
    """fresh instrumented copies of the fastavro modules (own module-level state), linked to each other"""

    def __init__(self):
        self.rec = Recorder()
        self.mods = {}
        real2inst = {}
        for name in MODULES:
            path, src, sha, code, real = _compiled(name)
            m = types.ModuleType(name)
            m.__file__ = path
            m.__package__ = real.__package__
            m.__dict__[HOOK] = self.rec
            exec(code, m.__dict__)
            self.mods[name] = m
            for k, v in real.__dict__.items():
                iv = m.__dict__.get(k)
                if iv is not None and iv is not v and isinstance(v, (types.FunctionType, type)) and getattr(v, "__module__", None) == name:
                    real2inst[id(v)] = iv
            # module-level data objects defined by the real module: the sibling's own copy replaces them wherever
            # another sibling imported the real one by name
            for k, v in real.__dict__.items():
                iv = m.__dict__.get(k)
                if iv is not None and iv is not v and not isinstance(v, _ATOM) and not k.startswith("__") and getattr(
                        type(v), "__module__", "") != "typing":
                    real2inst.setdefault(id(v), iv)
        self._relink(real2inst)
        # the shared set: module-level mutable state and mutable defaults of every sibling
        for name, m in self.mods.items():
            short = name.replace("fastavro.", "")
            for k, v in list(m.__dict__.items()):
                if isinstance(v, type) and v.__module__ == name:
                    # mutable class-level attributes are shared by every instance (and thread)
                    for ak, av in list(vars(v).items()):
                        if not ak.startswith("__") and isinstance(av, (dict, list, set)):
                            self.rec.mark(av, f"{short}.{k}.{ak}")
                    continue
                if k.startswith("__") or isinstance(v, (types.ModuleType, type)) or k == HOOK:
                    continue
                if isinstance(v, types.FunctionType):
                    if v.__module__ == name:
                        for dflt in (v.__defaults__ or ()):
                            self.rec.mark(dflt, f"{short}.{k}.<default>")
                        for dflt in (v.__kwdefaults__ or {}).values():
                            self.rec.mark(dflt, f"{short}.{k}.<default>")
                    continue
                if getattr(type(v), "__module__", "") == "typing":
                    continue
                self.rec.mark(v, f"{short}.{k}")

    def _relink(self, real2inst):
        def fix(v, depth=0):
            if id(v) in real2inst:
                return real2inst[id(v)], True
            return v, False
        for m in self.mods.values():
            d = m.__dict__
            for k, v in list(d.items()):
                if k in (HOOK,) or k.startswith("__"):
                    continue
                nv, ch = fix(v)
                if ch:
                    d[k] = nv
                elif isinstance(v, dict) and v and not k.startswith("_sx"):
                    for kk, vv in list(v.items()):
                        nvv, ch2 = fix(vv)
                        if ch2:
                            v[kk] = nvv
                elif isinstance(v, types.ModuleType) and v.__name__ in self.mods:
                    d[k] = self.mods[v.__name__]
        # default argument values captured at definition time (for example encoder=AvroJSONEncoder)
        for m in self.mods.values():
            for v in list(m.__dict__.values()):
                fs = [v] if isinstance(v, types.FunctionType) else (
                    [x for x in vars(v).values() if isinstance(x, types.FunctionType)] if isinstance(v, type) and v.__module__ == m.__name__ else [])
                for f in fs:
                    if f.__defaults__ and any(id(d) in real2inst for d in f.__defaults__):
                        f.__defaults__ = tuple(real2inst.get(id(d), d) for d in f.__defaults__)
                    if f.__kwdefaults__ and any(id(d) in real2inst for d in f.__kwdefaults__.values()):
                        f.__kwdefaults__ = {k: real2inst.get(id(d), d) for k, d in f.__kwdefaults__.items()}

    def mod(self, name):
        return self.mods[name]

    def sources(self):
        return {n: "sha1:" + _SRC[n][2] for n in self.mods}


class RealWorld:
    """the unmodified modules behind the same interface (replay)"""

    def mod(self, name):
        return importlib.import_module(name)


# ---------------------------------------------------------------------------------------------------------
# line tracing shared by recording (instrumented code, same file names and line numbers) and replay (real code)
# ---------------------------------------------------------------------------------------------------------

def _in_fastavro(filename):
    return "/fastavro/" in filename and filename.endswith(".py")


def make_tracer(on_line):
    def local(frame, event, arg):
        if event == "line":
            on_line(frame.f_code.co_filename, frame.f_lineno)
        return local

    def tracer(frame, event, arg):
        if event == "call" and _in_fastavro(frame.f_code.co_filename):
            return local
        return None
    return tracer


def record(world, fn, thread="T"):
    """run fn(world) in a named thread with access recording on; returns (result, [Event])"""
    rec = world.rec
    out = {}

    def on_line(f, l):
        t = threading.current_thread().name
        lc = rec.linecount.setdefault(t, {})
        n = lc.get((f, l), 0) + 1
        lc[(f, l)] = n
        rec.curline[t] = (f, l, n)

    def body():
        sys.settrace(make_tracer(on_line))
        rec.active = True
        try:
            out["r"] = ("ok", fn(world))
        except Exception as e:
            out["r"] = ("raised", type(e).__name__, str(e)[:200])
        finally:
            rec.active = False
            sys.settrace(None)
    th = threading.Thread(target=body, name=thread)
    th.start()
    th.join(120)
    return out.get("r", ("timeout",)), list(rec.events.get(thread, []))


# ---------------------------------------------------------------------------------------------------------
# replay on the real code: threads gated at line boundaries
# ---------------------------------------------------------------------------------------------------------

def replay_plan(fns, plan, timeout=60):
    """fns: {thread name: callable(RealWorld)}; plan: list of (thread, stop) segments in schedule order, where stop
    is None (run to completion) or (file, line, occurrence): the thread runs until it is about to execute that
    occurrence of that line, then the next segment's thread runs.  Threads not mentioned any more run to completion in
    name order at the end.  Returns {thread: result}."""
    cv = threading.Condition()
    state = dict(seg=0)
    results = {}
    done = set()
    counts = {t: {} for t in fns}
    world = RealWorld()

    def current():
        while state["seg"] < len(plan) and plan[state["seg"]][0] in done:
            state["seg"] += 1
        if state["seg"] < len(plan):
            return plan[state["seg"]][0]
        rest = sorted(t for t in fns if t not in done)
        return rest[0] if rest else None

    def wait_turn(t):
        with cv:
            cv.wait_for(lambda: current() == t or current() is None, timeout=timeout)

    def on_line_for(t):
        def on_line(f, l):
            c = counts[t]
            n = c.get((f, l), 0) + 1
            c[(f, l)] = n
            with cv:
                if state["seg"] < len(plan) and plan[state["seg"]][0] == t:
                    stop = plan[state["seg"]][1]
                    if stop is not None and (os.path.basename(f), l, n) == (os.path.basename(stop[0]), stop[1], stop[2]):
                        state["seg"] += 1
                        cv.notify_all()
                    else:
                        return
                else:
                    return
            wait_turn(t)
        return on_line

    def body(t):
        wait_turn(t)
        sys.settrace(make_tracer(on_line_for(t)))
        try:
            results[t] = ("ok", fns[t](world))
        except Exception as e:
            results[t] = ("raised", type(e).__name__, str(e)[:200])
        finally:
            sys.settrace(None)
            with cv:
                done.add(t)
                cv.notify_all()

    ths = [threading.Thread(target=body, args=(t,), name=t) for t in fns]
    for th in ths:
        th.start()
    for th in ths:
        th.join(timeout + 30)
    return results
