"""Symbolic data under a schema (E2): typing annotation for CrossHair, builder
from the annotated value to an Avro datum, and a deterministic sampler used for
reachability witnesses and for validating the token stand-ins against real bytes.

Shapes: null -> None; boolean -> bool; int/long -> int; float/double -> float;
bytes/string -> bytes/str; fixed -> bytes; enum -> int (symbol index);
array/map -> List[item] (map keys are k0,k1,..); union -> Tuple[int, b0, b1, ..];
record -> Tuple[f0, f1, ..] where a field with a default is Tuple[bool, shape]
(present flag); references are unfolded to a bounded depth.
"""
from .oracles.ir import deref


class OutOfDomain(Exception):
    pass


class Cfg:
    def __init__(self, K=2, SL=3, depth=2, ints="full", strs="sym", floats="sym", hints=False):
        self.K, self.SL, self.depth, self.ints, self.strs, self.hints = K, SL, depth, ints, strs, hints
        self.floats = floats
        self.bytes = "sym"
        self.npool = 99  # use only the first npool entries of each pool
        self.tuples = False  # build array data as tuples (a tuple is a sequence; hints only with tuple notation on)

    def but(self, **kw):
        c = Cfg(self.K, self.SL, self.depth, self.ints, self.strs, self.floats, self.hints)
        c.bytes = self.bytes
        c.npool = self.npool
        c.tuples = self.tuples
        for k, v in kw.items():
            setattr(c, k, v)
        return c


POOL = ["", "xyz", "\u00e9", "a"]
# floats chosen by symbolic index when the structural code only passes them through
# (every double is covered bit-exactly at layer 1): includes an int written under float/double
FPOOL = [-0.0, 1.5, 3, 5e-324, float("inf")]


def ann(node, names, cfg, depth=None):
    depth = cfg.depth if depth is None else depth
    k = node["k"]
    if k == "ref":
        if depth <= 0:
            return "None"
        return ann(names[node["name"]], names, cfg, depth - 1)
    if k == "null":
        return "None"
    if k == "boolean":
        return "bool"
    if k in ("int", "long", "enum"):
        return "int"
    if k in ("float", "double"):
        return "float" if cfg.floats == "sym" else "int"
    if k in ("bytes", "fixed"):
        return "bytes" if cfg.bytes == "sym" else "int"
    if k == "string":
        return "str" if cfg.strs == "sym" else "int"
    if k == "array":
        return f"List[{ann(node['items'], names, cfg, depth)}]"
    if k == "map":
        return f"List[{ann(node['values'], names, cfg, depth)}]"
    if k == "union":
        return "Tuple[int, " + ", ".join(ann(b, names, cfg, depth) for b in node["branches"]) + "]"
    if k == "record":
        parts = []
        for f in node["fields"]:
            a = ann(f["t"], names, cfg, depth)
            parts.append(f"Tuple[bool, {a}]" if f["has_default"] else a)
        if len(parts) == 1:
            return parts[0]  # no 1-tuples: CrossHair prints them without the trailing comma
        return "Tuple[" + ", ".join(parts) + "]" if parts else "None"
    raise AssertionError(k)


class Hints:
    """union hints consumed in encounter order: 0 none, 1 (name, value) tuple, 2 '-type' key
    (record branches), 3 a tuple naming no branch"""

    def __init__(self, hs=()):
        self.hs, self.i = list(hs), 0
        self.wrong = False
        self.used = 0

    def next(self):
        self.i += 1
        return self.hs[self.i - 1] if self.i <= len(self.hs) else 0


BPOOL = [b"", b"\xff\xfe\xfd", b"ab", b"\x00"]
IPOOL = [0, -(1 << 31), (1 << 31) - 1, -1, 64]
LPOOL = [0, -(1 << 63), (1 << 63) - 1, -65, 1 << 31]

NOMUT = object()

MUTANTS = [None, True, 0, 1 << 31, -(1 << 31) - 1, 1 << 63, 1.5, "s", b"b", b"four", "NOSYM", [], {}, {1: 2},
           ("x", 1), [None], {"k": "v"}, bytearray(b"ab"), (1, 2)]
DELETE = len(MUTANTS)  # kind == DELETE: drop the record field at that position
DELETED = object()


class Mut:
    """one mutation: the node visited as number `pos` (pre-order) is replaced by MUTANTS[kind],
    or, for kind == DELETE, the record field whose value is node number `pos` is omitted"""

    def __init__(self, pos, kind):
        self.pos, self.kind, self.n, self.applied = pos, kind, 0, False

    def visit(self):
        i = self.n
        self.n += 1
        if i == self.pos:
            self.applied = True
            if self.kind == DELETE:
                return DELETED
            for j, x in enumerate(MUTANTS):
                if self.kind == j:
                    return x
            raise OutOfDomain()
        return NOMUT


def _nodel(x):
    if x is DELETED:
        raise OutOfDomain()  # deletion only makes sense for a record field
    return x


def _foreign_value(node, names, cfg, depth):
    """a fixed conforming value of a named type (computed outside CrossHair's tracer: `samples` draws from `random`,
    which CrossHair would turn into symbolic choices)"""
    def make():
        fv = samples(node, names, cfg, 11, n=1)[0]
        return _build(node, names, fv, cfg, depth, None, None)
    try:
        from crosshair.tracers import NoTracing
    except Exception:
        return make()
    with NoTracing():
        return make()


def build(node, names, v, cfg, depth=None, hints=None, mut=None):
    if mut is not None:
        r = mut.visit()
        if r is not NOMUT:
            return r
        return _build(node, names, v, cfg, depth, hints, mut)
    return _build(node, names, v, cfg, depth, hints, None)


def _build(node, names, v, cfg, depth=None, hints=None, mut=None):
    depth = cfg.depth if depth is None else depth
    k = node["k"]
    if k == "ref":
        if depth <= 0:
            raise OutOfDomain()
        return _build(names[node["name"]], names, v, cfg, depth - 1, hints, mut)
    if k == "null":
        return None
    if k == "boolean":
        return v
    if k in ("int", "long") and cfg.ints == "pool":
        for i, x in enumerate((IPOOL if k == "int" else LPOOL)[:max(cfg.npool, 2)]):
            if v == i:
                return x
        raise OutOfDomain()
    if k == "int":
        lo, hi = (-64, 63) if cfg.ints == "small" else (-(1 << 31), (1 << 31) - 1)
        if not (lo <= v <= hi):
            raise OutOfDomain()
        return v
    if k == "long":
        lo, hi = (-64, 63) if cfg.ints == "small" else (-(1 << 63), (1 << 63) - 1)
        if not (lo <= v <= hi):
            raise OutOfDomain()
        return v
    if k in ("float", "double"):
        if cfg.floats == "sym":
            if v != v:
                raise OutOfDomain()  # NaN: compared by class at layer 1
            if k == "float" and v not in (float("inf"), float("-inf")) and (v >= 3.4028235677973366e38 or v <= -3.4028235677973366e38):
                # a finite value that binary32 cannot hold is not a "float" datum (the encoder raises OverflowError:
                # proved at layer 1, obligation float.overflow_only_when_unrepresentable)
                raise OutOfDomain()
            return v
        for i, x in enumerate(FPOOL[:cfg.npool]):  # explicit chain: the result stays a concrete number
            if v == i:
                return x
        raise OutOfDomain()
    if k in ("bytes", "fixed") and cfg.bytes == "pool":
        pool = BPOOL if k == "bytes" else [bytes(range(node["size"])), b"\xff" * node["size"]]
        for i, x in enumerate(pool[:cfg.npool]):
            if v == i:
                return x
        raise OutOfDomain()
    if k == "bytes":
        if len(v) > cfg.SL:
            raise OutOfDomain()
        return v
    if k == "string":
        if cfg.strs == "sym":
            if len(v) > cfg.SL:
                raise OutOfDomain()
            return v
        for i, x in enumerate(POOL[:cfg.npool]):
            if v == i:
                return x
        raise OutOfDomain()
    if k == "fixed":
        if len(v) != node["size"]:
            raise OutOfDomain()
        return v
    if k == "enum":
        if not (0 <= v < len(node["symbols"])):
            raise OutOfDomain()
        return node["symbols"][v]
    if k == "array":
        if len(v) > cfg.K:
            raise OutOfDomain()
        items = [_nodel(build(node["items"], names, x, cfg, depth, hints, mut)) for x in v]
        return tuple(items) if cfg.tuples else items
    if k == "map":
        if len(v) > cfg.K:
            raise OutOfDomain()
        return {f"k{i}": _nodel(build(node["values"], names, x, cfg, depth, hints, mut)) for i, x in enumerate(v)}
    if k == "union":
        i = v[0]
        if not (0 <= i < len(node["branches"])):
            raise OutOfDomain()
        val = _nodel(build(node["branches"][i], names, v[1 + i], cfg, depth, hints, mut))
        if mut is None:
            # data for which the property's branch rule is silent (conforming to a record branch and to a
            # non-record branch at once) are outside every harness's domain
            from .oracles import codec as _codec
            try:
                _codec.choose_branch(node, val, names, tuple_notation=not cfg.tuples)
            except _codec.Silent:
                raise OutOfDomain()
            except _codec.SpecError:
                pass
        if hints is None:
            return val
        h = hints.next()
        if h == 0:
            return val
        from .oracles.ir import branch_name, deref as _deref
        if h == 1:
            hints.used += 1
            return (branch_name(node["branches"][i], names), val)
        if h == 2:
            if _deref(node["branches"][i], names)["k"] != "record":
                raise OutOfDomain()
            hints.used += 1
            val = dict(val)
            val["-type"] = branch_name(node["branches"][i], names)
            return val
        if h == 3:
            hints.wrong = True
            return ("no.such.Branch", val)
        if h == 4:
            # a hint naming a type that IS defined in the schema but is not a branch of this union, with a value
            # conforming to that foreign type
            own = {branch_name(b, names) for b in node["branches"]}
            for full in sorted(names):
                if full not in own and names[full]["k"] in ("record", "enum", "fixed"):
                    hints.wrong = True
                    return (full, _foreign_value(names[full], names, cfg, depth))
            raise OutOfDomain()
        raise OutOfDomain()
    if k == "record":
        if not node["fields"]:
            return {}
        d = {}
        if len(node["fields"]) == 1:
            v = (v,)
        for f, x in zip(node["fields"], v):
            if f["has_default"]:
                present, x = x
                if not present:
                    continue
            val = build(f["t"], names, x, cfg, depth, hints, mut)
            if val is DELETED:
                continue
            d[f["name"]] = val
        return d
    raise AssertionError(k)


def sample(node, names, cfg, rng, depth=None, big=False):
    """a concrete shape value (deterministic given rng)"""
    depth = cfg.depth if depth is None else depth
    k = node["k"]
    if k == "ref":
        if depth <= 0:
            return None
        return sample(names[node["name"]], names, cfg, rng, depth - 1, big)
    if k == "null":
        return None
    if k == "boolean":
        return rng.random() < 0.5
    if k in ("int", "long") and cfg.ints == "pool":
        return rng.randrange(min(len(IPOOL), max(cfg.npool, 2)))
    if k == "int":
        if cfg.ints == "small":
            return rng.randint(-64, 63)
        return rng.choice([0, -1, 63, 64, -65, 8191, -8193, (1 << 31) - 1, -(1 << 31)])
    if k == "long":
        if cfg.ints == "small":
            return rng.randint(-64, 63)
        return rng.choice([0, 1, -64, 64, 1 << 20, -(1 << 34), (1 << 63) - 1, -(1 << 63), 1 << 62])
    if k in ("float", "double"):
        if cfg.floats == "sym":
            return rng.choice([0.0, -0.0, 1.5, -2.25, 1e10, 0.1 if k == "double" else 0.5])
        return rng.randrange(min(len(FPOOL), cfg.npool))
    if k in ("bytes", "fixed") and cfg.bytes == "pool":
        return rng.randrange(min(len(BPOOL), cfg.npool) if k == "bytes" else 2)
    if k == "bytes":
        return bytes(rng.randrange(256) for _ in range(rng.randint(0, cfg.SL)))
    if k == "string":
        if cfg.strs == "sym":
            return "".join(rng.choice("aé€z") for _ in range(rng.randint(0, cfg.SL)))
        return rng.randrange(min(len(POOL), cfg.npool))
    if k == "fixed":
        return bytes(rng.randrange(256) for _ in range(node["size"]))
    if k == "enum":
        return rng.randrange(len(node["symbols"]))
    if k in ("array", "map"):
        sub = node["items"] if k == "array" else node["values"]
        n = rng.randint(0, cfg.K)
        return [sample(sub, names, cfg, rng, depth, big) for _ in range(n)]
    if k == "union":
        i = rng.randrange(len(node["branches"]))
        return tuple([i] + [sample(b, names, cfg, rng, depth, big) for b in node["branches"]])
    if k == "record":
        if not node["fields"]:
            return None
        out = []
        for f in node["fields"]:
            x = sample(f["t"], names, cfg, rng, depth, big)
            out.append((rng.random() < 0.6, x) if f["has_default"] else x)
        if len(out) == 1:
            return out[0]
        return tuple(out)
    raise AssertionError(k)


def samples(node, names, cfg, seed, n=6):
    import random
    out = []
    rng = random.Random(seed)
    tries = 0
    while len(out) < n and tries < 200:
        tries += 1
        v = sample(node, names, cfg, rng)
        try:
            build(node, names, v, cfg)
        except OutOfDomain:
            continue
        out.append(v)
    return out
