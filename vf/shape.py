"""Symbolic data under a schema (E2): typing annotation for CrossHair, builder
from the annotated value to an Avro datum, and a deterministic sampler used for
reachability witnesses and for validating the token stand-ins against real bytes.

Shapes: null -> None; boolean -> bool; int/long -> int; float/double -> float;
bytes/string -> bytes/str; fixed -> bytes; enum -> int (symbol index);
array/map -> List[item] (map keys are k0,k1,..); union -> Tuple[int, b0, b1, ..];
record -> Tuple[f0, f1, ..] where a field with a default is Tuple[bool, shape]
(present flag); references are unfolded to a bounded depth.
"""
from .oracles.ir import deref


class OutOfDomain(Exception):
    pass


class Cfg:
    def __init__(self, K=2, SL=3, depth=2, ints="full", strs="sym", floats="sym", hints=False):
        self.K, self.SL, self.depth, self.ints, self.strs, self.hints = K, SL, depth, ints, strs, hints
        self.floats = floats

    def but(self, **kw):
        c = Cfg(self.K, self.SL, self.depth, self.ints, self.strs, self.floats, self.hints)
        for k, v in kw.items():
            setattr(c, k, v)
        return c


POOL = ["", "a", "\u00e9", "xyz"]
# floats chosen by symbolic index when the structural code only passes them through
# (every double is covered bit-exactly at layer 1): includes an int written under float/double
FPOOL = [-0.0, 1.5, 3, 5e-324, float("inf")]


def ann(node, names, cfg, depth=None):
    depth = cfg.depth if depth is None else depth
    k = node["k"]
    if k == "ref":
        if depth <= 0:
            return "None"
        return ann(names[node["name"]], names, cfg, depth - 1)
    if k == "null":
        return "None"
    if k == "boolean":
        return "bool"
    if k in ("int", "long", "enum"):
        return "int"
    if k in ("float", "double"):
        return "float" if cfg.floats == "sym" else "int"
    if k in ("bytes", "fixed"):
        return "bytes"
    if k == "string":
        return "str" if cfg.strs == "sym" else "int"
    if k == "array":
        return f"List[{ann(node['items'], names, cfg, depth)}]"
    if k == "map":
        return f"List[{ann(node['values'], names, cfg, depth)}]"
    if k == "union":
        return "Tuple[int, " + ", ".join(ann(b, names, cfg, depth) for b in node["branches"]) + "]"
    if k == "record":
        parts = []
        for f in node["fields"]:
            a = ann(f["t"], names, cfg, depth)
            parts.append(f"Tuple[bool, {a}]" if f["has_default"] else a)
        if len(parts) == 1:
            return parts[0]  # no 1-tuples: CrossHair prints them without the trailing comma
        return "Tuple[" + ", ".join(parts) + "]" if parts else "None"
    raise AssertionError(k)


class Hints:
    """union hints consumed in encounter order: 0 none, 1 (name, value) tuple, 2 '-type' key
    (record branches), 3 a tuple naming no branch"""

    def __init__(self, hs=()):
        self.hs, self.i = list(hs), 0
        self.wrong = False
        self.used = 0

    def next(self):
        self.i += 1
        return self.hs[self.i - 1] if self.i <= len(self.hs) else 0


def build(node, names, v, cfg, depth=None, hints=None):
    depth = cfg.depth if depth is None else depth
    k = node["k"]
    if k == "ref":
        if depth <= 0:
            raise OutOfDomain()
        return build(names[node["name"]], names, v, cfg, depth - 1, hints)
    if k == "null":
        return None
    if k == "boolean":
        return v
    if k == "int":
        lo, hi = (-64, 63) if cfg.ints == "small" else (-(1 << 31), (1 << 31) - 1)
        if not (lo <= v <= hi):
            raise OutOfDomain()
        return v
    if k == "long":
        lo, hi = (-64, 63) if cfg.ints == "small" else (-(1 << 63), (1 << 63) - 1)
        if not (lo <= v <= hi):
            raise OutOfDomain()
        return v
    if k in ("float", "double"):
        if cfg.floats == "sym":
            if v != v:
                raise OutOfDomain()  # NaN: compared by class at layer 1
            return v
        for i, x in enumerate(FPOOL):  # explicit chain: the result stays a concrete number
            if v == i:
                return x
        raise OutOfDomain()
    if k == "bytes":
        if len(v) > cfg.SL:
            raise OutOfDomain()
        return v
    if k == "string":
        if cfg.strs == "sym":
            if len(v) > cfg.SL:
                raise OutOfDomain()
            return v
        for i, x in enumerate(POOL):
            if v == i:
                return x
        raise OutOfDomain()
    if k == "fixed":
        if len(v) != node["size"]:
            raise OutOfDomain()
        return v
    if k == "enum":
        if not (0 <= v < len(node["symbols"])):
            raise OutOfDomain()
        return node["symbols"][v]
    if k == "array":
        if len(v) > cfg.K:
            raise OutOfDomain()
        return [build(node["items"], names, x, cfg, depth, hints) for x in v]
    if k == "map":
        if len(v) > cfg.K:
            raise OutOfDomain()
        return {f"k{i}": build(node["values"], names, x, cfg, depth, hints) for i, x in enumerate(v)}
    if k == "union":
        i = v[0]
        if not (0 <= i < len(node["branches"])):
            raise OutOfDomain()
        val = build(node["branches"][i], names, v[1 + i], cfg, depth, hints)
        if hints is None:
            return val
        h = hints.next()
        if h == 0:
            return val
        from .oracles.ir import branch_name, deref as _deref
        if h == 1:
            hints.used += 1
            return (branch_name(node["branches"][i], names), val)
        if h == 2:
            if _deref(node["branches"][i], names)["k"] != "record":
                raise OutOfDomain()
            hints.used += 1
            val = dict(val)
            val["-type"] = branch_name(node["branches"][i], names)
            return val
        if h == 3:
            hints.wrong = True
            return ("no.such.Branch", val)
        raise OutOfDomain()
    if k == "record":
        if not node["fields"]:
            return {}
        d = {}
        if len(node["fields"]) == 1:
            v = (v,)
        for f, x in zip(node["fields"], v):
            if f["has_default"]:
                present, x = x
                if not present:
                    continue
            d[f["name"]] = build(f["t"], names, x, cfg, depth, hints)
        return d
    raise AssertionError(k)


def sample(node, names, cfg, rng, depth=None, big=False):
    """a concrete shape value (deterministic given rng)"""
    depth = cfg.depth if depth is None else depth
    k = node["k"]
    if k == "ref":
        if depth <= 0:
            return None
        return sample(names[node["name"]], names, cfg, rng, depth - 1, big)
    if k == "null":
        return None
    if k == "boolean":
        return rng.random() < 0.5
    if k == "int":
        if cfg.ints == "small":
            return rng.randint(-64, 63)
        return rng.choice([0, -1, 63, 64, -65, 8191, -8193, (1 << 31) - 1, -(1 << 31)])
    if k == "long":
        if cfg.ints == "small":
            return rng.randint(-64, 63)
        return rng.choice([0, 1, -64, 64, 1 << 20, -(1 << 34), (1 << 63) - 1, -(1 << 63), 1 << 62])
    if k in ("float", "double"):
        if cfg.floats == "sym":
            return rng.choice([0.0, -0.0, 1.5, -2.25, 1e10, 0.1 if k == "double" else 0.5])
        return rng.randrange(len(FPOOL))
    if k == "bytes":
        return bytes(rng.randrange(256) for _ in range(rng.randint(0, cfg.SL)))
    if k == "string":
        if cfg.strs == "sym":
            return "".join(rng.choice("aé€z") for _ in range(rng.randint(0, cfg.SL)))
        return rng.randrange(len(POOL))
    if k == "fixed":
        return bytes(rng.randrange(256) for _ in range(node["size"]))
    if k == "enum":
        return rng.randrange(len(node["symbols"]))
    if k in ("array", "map"):
        sub = node["items"] if k == "array" else node["values"]
        n = rng.randint(0, cfg.K)
        return [sample(sub, names, cfg, rng, depth, big) for _ in range(n)]
    if k == "union":
        i = rng.randrange(len(node["branches"]))
        return tuple([i] + [sample(b, names, cfg, rng, depth, big) for b in node["branches"]])
    if k == "record":
        if not node["fields"]:
            return None
        out = []
        for f in node["fields"]:
            x = sample(f["t"], names, cfg, rng, depth, big)
            out.append((rng.random() < 0.6, x) if f["has_default"] else x)
        if len(out) == 1:
            return out[0]
        return tuple(out)
    raise AssertionError(k)


def samples(node, names, cfg, seed, n=6):
    import random
    out = []
    rng = random.Random(seed)
    tries = 0
    while len(out) < n and tries < 200:
        tries += 1
        v = sample(node, names, cfg, rng)
        try:
            build(node, names, v, cfg)
        except OutOfDomain:
            continue
        out.append(v)
    return out
