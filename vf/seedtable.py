"""Markdown table of the seeded changes under /verif/seeded and the checks that caught them (for DESIGN.md)."""
import glob
import json
import os


def main():
    rows = []
    for meta in sorted(glob.glob("/verif/seeded/C*/*/meta.json")):
        d = os.path.dirname(meta)
        m = json.load(open(meta))
        notes = os.path.join(d, "notes.md")
        first = ""
        if os.path.exists(notes):
            lines = [l.strip() for l in open(notes) if l.strip()]
            import re
            first = lines[0].lstrip("# ").strip()
            first = re.sub(r"^(Seed|seed)?\s*C?\d*/?\d*\s*(seed|Seed)?\s*\d*\s*(\(round \d\))?\s*(\(C\d+\))?\s*[-:)]*\s*", "", first)
            first = re.sub(r"^(C\d\d)?\s*(\(round \d\))?\s*[-:)]+\s*", "", first).strip()
        det = m.get("detected_by")
        if m.get("apply_error"):
            status = "does not apply to the repaired tree"
        elif not m.get("confirmed"):
            status = "not confirmed on the current tree (superseded)"
        else:
            status = ", ".join(det) if det else "**missed**"
        rows.append((m["property"], m["name"], first[:140], status))
    print("| property | seed | change | caught by |")
    print("|---|---|---|---|")
    for r in rows:
        print("| %s | %s | %s | %s |" % r)


if __name__ == "__main__":
    main()
