"""Independent token-level model of the Avro binary encoding (from the specification):
spec encoder, spec decoder (any block partition, negative counts), normalisation of
read-back values, and the union branch rule stated in property C09."""
from .ir import deref, branch_name
from . import ir as _ir
from .conform import conforms, _is_int


class SpecError(Exception):
    pass


# ---- normalisation: what reading back must give (C01) ------------------------------------

def normalise(node, d, names, f32=lambda x: x):
    n = deref(node, names)
    k = n["k"]
    if k in ("null", "boolean", "int", "long", "string", "enum"):
        return d
    if k == "bytes":
        return bytes(d)
    if k == "fixed":
        return d
    if k == "float":
        return f32(float(d))
    if k == "double":
        return float(d)
    if k == "array":
        return [normalise(n["items"], x, names, f32) for x in d]
    if k == "map":
        return {key: normalise(n["values"], x, names, f32) for key, x in d.items()}
    if k == "record":
        out = {}
        for f in n["fields"]:
            if f["name"] in d:
                out[f["name"]] = normalise(f["t"], d[f["name"]], names, f32)
            elif f["has_default"]:
                out[f["name"]] = normalise(f["t"], _ir.default_value(f["t"], f["default"], names), names, f32)
            else:
                out[f["name"]] = normalise(f["t"], None, names, f32)
        return out
    if k == "union":
        i, val = choose_branch(n, d, names)
        return normalise(n["branches"][i], val, names, f32)
    raise AssertionError(k)


# ---- union branch rule (C09 as stated) ---------------------------------------------------

class Silent(Exception):
    """the property text does not determine the branch for this datum (not asserted)"""


def choose_branch(n, d, names, tuple_notation=True):
    """The rule of property C09.  returns (index, value without hint); raises SpecError when
    the rule says writing is an error, Silent where the statement leaves the choice open
    (a datum conforming to both a record branch and a non-record branch)."""
    brs = n["branches"]
    if isinstance(d, tuple) and tuple_notation:
        if len(d) != 2:
            raise SpecError("a tuple that is not a (name, value) hint")
        name, val = d
        for i, b in enumerate(brs):
            if branch_name(b, names) == name:
                return i, val
        raise SpecError("hint names no branch")
    recs, nonrecs = [], []
    for i, b in enumerate(brs):
        if conforms(b, d, names, tuple_notation=tuple_notation):
            (recs if deref(b, names)["k"] == "record" else nonrecs).append(i)
    if recs and nonrecs:
        raise Silent()
    if isinstance(d, dict) and "-type" in d and nonrecs:
        raise Silent()
    if nonrecs:
        i = nonrecs[0]
        if deref(brs[i], names)["k"] == "float":
            for j in range(i + 1, len(brs)):
                if deref(brs[j], names)["k"] == "double":
                    return j, d
        return i, d
    if recs:
        best, most = None, -1
        for i in recs:
            shared = len({f["name"] for f in deref(brs[i], names)["fields"]} & set(d))
            if shared > most:
                best, most = i, shared
        return best, d
    raise SpecError("no conforming branch")


# ---- spec encoder over tokens ------------------------------------------------------------

def encode(node, d, names, out, pick=None):
    """append the specification's token sequence for d.  pick(n, d) -> branch index chooser
    (defaults to the C09 rule)."""
    n = deref(node, names)
    k = n["k"]
    if k == "null":
        return
    if k == "boolean":
        out.append(("boolean", bool(d)))
    elif k in ("int", "long"):
        out.append(("long", d))
    elif k == "float":
        out.append(("float", float(d)))  # an int datum under float/double is encoded as that number's float
    elif k == "double":
        out.append(("double", float(d)))
    elif k == "bytes":
        out.append(("bytes", bytes(d)))
    elif k == "string":
        out.append(("utf8", d))
    elif k == "fixed":
        if len(d):
            out.append(("raw", d))
    elif k == "enum":
        out.append(("long", n["symbols"].index(d)))
    elif k == "array":
        if len(d):
            out.append(("long", len(d)))
            for x in d:
                encode(n["items"], x, names, out, pick)
        out.append(("long", 0))
    elif k == "map":
        if len(d):
            out.append(("long", len(d)))
            for key, x in d.items():
                out.append(("utf8", key))
                encode(n["values"], x, names, out, pick)
        out.append(("long", 0))
    elif k == "record":
        for f in n["fields"]:
            if f["name"] in d:
                encode(f["t"], d[f["name"]], names, out, pick)
            elif f["has_default"]:
                encode(f["t"], _ir.default_value(f["t"], f["default"], names), names, out, pick)
            else:
                encode(f["t"], None, names, out, pick)
    elif k == "union":
        i, val = (pick or choose_branch)(n, d, names)
        out.append(("long", i))
        encode(n["branches"][i], val, names, out, pick)
    else:
        raise AssertionError(k)


# ---- spec decoder over tokens --------------------------------------------------------------

class Cursor:
    def __init__(self, toks):
        self.toks, self.pos = list(toks), 0
        self.raw_size = None

    @property
    def at_end(self):
        return self.pos == len(self.toks)

    def take(self, *kinds):
        if self.pos >= len(self.toks):
            raise SpecError("end of input")
        k, v = self.toks[self.pos]
        if k not in kinds:
            raise SpecError(f"wanted {kinds} got {k}")
        self.pos += 1
        return k, v


def decode(node, cur, names, branches=None):
    """decode one value; records the union branches met in `branches` (list)"""
    n = deref(node, names)
    k = n["k"]
    if k == "null":
        return None
    if k == "boolean":
        return cur.take("boolean")[1]
    if k in ("int", "long"):
        return cur.take("long")[1]
    if k == "float":
        return cur.take("float")[1]
    if k == "double":
        return cur.take("double")[1]
    if k == "bytes":
        kk, v = cur.take("bytes", "utf8")
        return v.encode() if kk == "utf8" else v
    if k == "string":
        kk, v = cur.take("utf8", "bytes")
        return v.decode() if kk == "bytes" else v
    if k == "fixed":
        if n["size"] == 0:
            return b""
        cur.raw_size = n["size"]
        v = cur.take("raw")[1]
        if len(v) != n["size"]:
            raise SpecError("fixed size")
        return v
    if k == "enum":
        i = cur.take("long")[1]
        if not (0 <= i < len(n["symbols"])):
            raise SpecError("enum index out of range")
        return n["symbols"][i]
    if k in ("array", "map"):
        out = [] if k == "array" else {}
        while True:
            c = cur.take("long")[1]
            if c == 0:
                return out
            if c < 0:
                c = -c
                cur.take("long")  # byte size of the block
            for _ in range(c):
                if k == "array":
                    out.append(decode(n["items"], cur, names, branches))
                else:
                    key = cur.take("utf8", "bytes")[1]
                    out[key] = decode(n["values"], cur, names, branches)
    if k == "record":
        return {f["name"]: decode(f["t"], cur, names, branches) for f in n["fields"]}
    if k == "union":
        i = cur.take("long")[1]
        if not (0 <= i < len(n["branches"])):
            raise SpecError("union index out of range")
        if branches is not None:
            branches.append(i)
        return decode(n["branches"][i], cur, names, branches)
    raise AssertionError(k)


# ---- byte level (used when replaying on real bytes) ------------------------------------------

import struct as _struct


def varint(n):
    zz = (n << 1) if n >= 0 else ((-n) << 1) - 1
    out = bytearray()
    while True:
        g = zz & 0x7F
        zz >>= 7
        if zz:
            out.append(g | 0x80)
        else:
            out.append(g)
            return bytes(out)


def to_bytes(toks):
    out = bytearray()
    for k, v in toks:
        if k == "long":
            out += varint(v)
        elif k == "boolean":
            out += b"\x01" if v else b"\x00"
        elif k == "float":
            out += _struct.pack("<f", v)
        elif k == "double":
            out += _struct.pack("<d", v)
        elif k == "bytes":
            out += varint(len(v)) + bytes(v)
        elif k == "utf8":
            b = v.encode("utf-8")
            out += varint(len(b)) + b
        elif k == "raw":
            out += bytes(v)
        else:
            raise AssertionError(k)
    return bytes(out)


class ByteCursor:
    """same interface as Cursor, over real bytes"""

    def __init__(self, data):
        self.b, self.pos = bytes(data), 0
        self.raw_size = None

    def _need(self, n):
        if self.pos + n > len(self.b):
            raise SpecError("end of input")
        r = self.b[self.pos:self.pos + n]
        self.pos += n
        return r

    def _varint(self):
        shift = 0
        zz = 0
        while True:
            c = self._need(1)[0]
            zz |= (c & 0x7F) << shift
            shift += 7
            if not c & 0x80:
                break
            if shift > 70:
                raise SpecError("varint too long")
        return (zz >> 1) if not zz & 1 else -((zz + 1) >> 1)

    def take(self, *kinds):
        k = kinds[0]
        if k == "long":
            return k, self._varint()
        if k == "boolean":
            return k, self._need(1)[0] != 0
        if k == "float":
            return k, _struct.unpack("<f", self._need(4))[0]
        if k == "double":
            return k, _struct.unpack("<d", self._need(8))[0]
        if k == "bytes":
            n = self._varint()
            if n < 0:
                raise SpecError("negative length")
            return k, self._need(n)
        if k == "utf8":
            n = self._varint()
            if n < 0:
                raise SpecError("negative length")
            return k, self._need(n).decode("utf-8")
        if k == "raw":
            return k, self._need(self.raw_size)
        raise AssertionError(k)

    @property
    def at_end(self):
        return self.pos == len(self.b)
