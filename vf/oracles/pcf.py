"""Parsing Canonical Form by the specification's rules ([PRIMITIVES], [FULLNAMES], [STRIP], [ORDER],
[STRINGS], [INTEGERS], [WHITESPACE]) - independent of fastavro, computed from the IR of oracles.ir."""
import json


def _s(x):
    return json.dumps(x, ensure_ascii=False, separators=(",", ":"))


def pcf(node, seen=None):
    seen = set() if seen is None else seen
    k = node["k"]
    if k == "ref":
        return _s(node["name"])
    if k == "union":
        return "[" + ",".join(pcf(b, seen) for b in node["branches"]) + "]"
    if k == "array":
        return '{"type":"array","items":' + pcf(node["items"], seen) + "}"
    if k == "map":
        return '{"type":"map","values":' + pcf(node["values"], seen) + "}"
    if k == "enum":
        return '{"name":' + _s(node["name"]) + ',"type":"enum","symbols":[' + ",".join(_s(x) for x in node["symbols"]) + "]}"
    if k == "fixed":
        return '{"name":' + _s(node["name"]) + ',"type":"fixed","size":' + str(int(node["size"])) + "}"
    if k == "record":
        fs = ",".join('{"name":' + _s(f["name"]) + ',"type":' + pcf(f["t"], seen) + "}" for f in node["fields"])
        return '{"name":' + _s(node["name"]) + ',"type":"record","fields":[' + fs + "]}"
    return _s(k)
