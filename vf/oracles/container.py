"""Independent model of the Avro object container file layout (from the specification):
a parser and a writer, over tokens (E2) or real bytes (replay).  Imports nothing from fastavro."""
import bz2
import json
import lzma
import zlib

from .codec import Cursor, ByteCursor, SpecError, decode, encode, to_bytes, varint

MAGIC = b"Obj\x01"


class LayoutError(Exception):
    pass


# ---------------------------------------------------------------------------------------
# compression (real bytes); at token level payloads are wrapped by the stand-ins of vf.tok
# ---------------------------------------------------------------------------------------

def compress(codec, data):
    if codec == "null":
        return data
    if codec == "deflate":
        c = zlib.compressobj(6, zlib.DEFLATED, -15)
        return c.compress(data) + c.flush()
    if codec == "bzip2":
        return bz2.compress(data)
    if codec == "xz":
        return lzma.compress(data)
    raise LayoutError(f"codec {codec}")


def decompress(codec, data):
    if codec == "null":
        return data
    if codec == "deflate":
        return zlib.decompress(data, -15)
    if codec == "bzip2":
        return bz2.decompress(data)
    if codec == "xz":
        return lzma.decompress(data)
    raise LayoutError(f"codec {codec}")


# ---------------------------------------------------------------------------------------
# parser
# ---------------------------------------------------------------------------------------

def parse_bytes(data):
    """-> dict(meta, sync, header_len, blocks=[dict(count, payload(bytes, decompressed), offset, size)])"""
    cur = ByteCursor(data)
    cur.raw_size = 4
    if cur.take("raw")[1] != MAGIC:
        raise LayoutError("magic")
    meta = {}
    while True:
        n = cur.take("long")[1]
        if n == 0:
            break
        if n < 0:
            n = -n
            cur.take("long")
        for _ in range(n):
            k = cur.take("utf8")[1]
            meta[k] = cur.take("bytes")[1]
    cur.raw_size = 16
    sync = cur.take("raw")[1]
    header_len = cur.pos
    codec = meta.get("avro.codec", b"null").decode()
    blocks = []
    while not cur.at_end:
        off = cur.pos
        count = cur.take("long")[1]
        size = cur.take("long")[1]
        if size < 0:
            raise LayoutError("negative block size")
        cur.raw_size = size
        raw = cur.take("raw")[1] if size else b""
        cur.raw_size = 16
        if cur.take("raw")[1] != sync:
            raise LayoutError("sync marker mismatch")
        blocks.append(dict(count=count, payload=decompress(codec, raw), offset=off, size=cur.pos - off))
    return dict(meta=meta, sync=sync, header_len=header_len, blocks=blocks, codec=codec)


def parse_tokens(toks, unwrap):
    """token-level layout: [raw MAGIC] map [raw sync] ([long count][long size][raw payload][raw sync])*
    unwrap(codec, payload_object) -> list of tokens of the block"""
    cur = Cursor(toks)
    if cur.take("raw")[1] != MAGIC:
        raise LayoutError("magic")
    meta = {}
    while True:
        n = cur.take("long")[1]
        if n == 0:
            break
        if n < 0:
            n = -n
            cur.take("long")
        for _ in range(n):
            k = cur.take("utf8")[1]
            meta[k] = cur.take("bytes")[1]
    sync = cur.take("raw")[1]
    if not isinstance(sync, bytes) or len(sync) != 16:
        raise LayoutError("sync marker is not 16 bytes")
    codec = meta.get("avro.codec", b"null").decode()
    blocks = []
    while not cur.at_end:
        count = cur.take("long")[1]
        size = cur.take("long")[1]
        if size != 0:
            p = cur.take("raw")[1]
            if len(p) != size:
                raise LayoutError("block size field differs from the payload length")
            ptoks = unwrap(codec, p)
        else:
            # a zero-length payload writes no token
            ptoks = []
            if codec != "null":
                raise LayoutError("empty compressed payload")
        if cur.take("raw")[1] != sync:
            raise LayoutError("sync marker mismatch")
        blocks.append(dict(count=count, payload=ptoks))
    return dict(meta=meta, sync=sync, blocks=blocks, codec=codec)


def records_of(parsed, ir, names, tokens):
    out = []
    for b in parsed["blocks"]:
        cur = Cursor(b["payload"]) if tokens else ByteCursor(b["payload"])
        for _ in range(b["count"]):
            out.append(decode(ir, cur, names))
        if not cur.at_end:
            raise LayoutError("block payload longer than its records")
    return out


# ---------------------------------------------------------------------------------------
# writer
# ---------------------------------------------------------------------------------------

def header_tokens(meta_items, sync, chunks, neg, exact_sizes=True):
    """meta_items: list of (key, bytes).  chunks: list of chunk sizes summing to len(meta_items);
    neg[i]: chunk i is announced by a negative count followed by a byte size"""
    toks = [("raw", MAGIC)]
    i = 0
    for ci, n in enumerate(chunks):
        if n == 0:
            continue
        part = meta_items[i:i + n]
        i += n
        if neg[ci] if ci < len(neg) else False:
            toks.append(("long", -n))
            if exact_sizes:
                toks.append(("long", len(to_bytes([t for k, v in part for t in (("utf8", k), ("bytes", v))]))))
            else:
                toks.append(("long", 1))  # readers must ignore the byte size
        else:
            toks.append(("long", n))
        for k, v in part:
            toks.append(("utf8", k))
            toks.append(("bytes", v))
    toks.append(("long", 0))
    toks.append(("raw", sync))
    return toks
