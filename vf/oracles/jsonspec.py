"""The specification's JSON encoding of a datum (independent of fastavro)."""
from .ir import deref, branch_name
from .codec import choose_branch


def to_json(node, d, names, union_type=True):
    n = deref(node, names)
    k = n["k"]
    if k == "null":
        return None
    if k in ("boolean", "int", "long", "string", "enum"):
        return d
    if k in ("float", "double"):
        return float(d)
    if k in ("bytes", "fixed"):
        return bytes(d).decode("iso-8859-1")
    if k == "array":
        return [to_json(n["items"], x, names, union_type) for x in d]
    if k == "map":
        return {key: to_json(n["values"], x, names, union_type) for key, x in d.items()}
    if k == "record":
        out = {}
        for f in n["fields"]:
            if f["name"] in d:
                out[f["name"]] = to_json(f["t"], d[f["name"]], names, union_type)
            elif f["has_default"]:
                out[f["name"]] = to_json(f["t"], f["default"], names, union_type)
            else:
                out[f["name"]] = to_json(f["t"], None, names, union_type)
        return out
    if k == "union":
        i, val = choose_branch(n, d, names)
        b = n["branches"][i]
        if deref(b, names)["k"] == "null":
            return None
        inner = to_json(b, val, names, union_type)
        return {branch_name(b, names): inner} if union_type else inner
    raise AssertionError(k)
