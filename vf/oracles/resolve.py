"""Independent schema-resolution oracle (Avro specification, 'Schema Resolution', with
the union rule exactly as worded in property C08: first reader branch of the same
type, otherwise the first reachable by promotion).

resolve_decode(w, r, cur, wnames, rnames) decodes one value written under IR node w
from cursor `cur` and returns it as the reader schema r prescribes, or raises
NoResolution when the rules give no result for the datum at hand."""
from .ir import deref
from .codec import SpecError, decode


class NoResolution(Exception):
    pass


PROMOTE = {
    "int": ("long", "float", "double"),
    "long": ("float", "double"),
    "float": ("double",),
    "string": ("bytes",),
    "bytes": ("string",),
}


def unq(name):
    return name.rsplit(".", 1)[-1]


def names_match(w, r):
    """named types match by unqualified name, or by a reader alias (full or unqualified)"""
    if unq(w["name"]) == unq(r["name"]):
        return True
    al = r.get("aliases", [])
    return w["name"] in al or unq(w["name"]) in al


def same_type(w, r, wn, rn):
    """w (not a union) and reader branch r are 'the same type' for union resolution"""
    w, r = deref(w, wn), deref(r, rn)
    if w["k"] != r["k"]:
        return False
    if w["k"] in ("record", "enum", "fixed"):
        return names_match(w, r)
    return True


def promotable(w, r, wn, rn):
    w, r = deref(w, wn), deref(r, rn)
    return r["k"] in PROMOTE.get(w["k"], ())


def promote(v, wk, rk):
    if wk in ("int", "long") and rk in ("float", "double"):
        return float(v)
    if wk == "string" and rk == "bytes":
        return v.encode("utf-8")
    if wk == "bytes" and rk == "string":
        return v.decode("utf-8")
    return v


def static_match(w, r, wn, rn):
    """do two schemas match as the item/value types of arrays/maps must (decided on the schemas alone; a union on
    either side defers the decision to the data)"""
    w, r = deref(w, wn), deref(r, rn)
    if w["k"] == "union" or r["k"] == "union":
        return True
    if w["k"] != r["k"]:
        return r["k"] in PROMOTE.get(w["k"], ())
    if w["k"] in ("record", "enum"):
        return names_match(w, r)
    if w["k"] == "fixed":
        return names_match(w, r) and w["size"] == r["size"]
    if w["k"] == "array":
        return static_match(w["items"], r["items"], wn, rn)
    if w["k"] == "map":
        return static_match(w["values"], r["values"], wn, rn)
    return True


def pick_reader_branch(w, rbranches, wn, rn):
    for i, b in enumerate(rbranches):
        if same_type(w, b, wn, rn):
            return i
    for i, b in enumerate(rbranches):
        if promotable(w, b, wn, rn):
            return i
    return None


def resolve_decode(w, r, cur, wn, rn):
    w = deref(w, wn)
    if w["k"] == "union":
        i = cur.take("long")[1]
        if not (0 <= i < len(w["branches"])):
            raise SpecError("union index")
        return resolve_decode(w["branches"][i], r, cur, wn, rn)
    r = deref(r, rn)
    if r["k"] == "union":
        j = pick_reader_branch(w, r["branches"], wn, rn)
        if j is None:
            decode(w, cur, wn)
            raise NoResolution("no reader branch matches")
        return resolve_decode(w, r["branches"][j], cur, wn, rn)
    wk, rk = w["k"], r["k"]
    if wk == rk == "array" and not static_match(w["items"], r["items"], wn, rn):
        decode(w, cur, wn)
        raise NoResolution("array item types do not match")
    if wk == rk == "map" and not static_match(w["values"], r["values"], wn, rn):
        decode(w, cur, wn)
        raise NoResolution("map value types do not match")
    if wk == rk == "array":
        out = []
        while True:
            c = cur.take("long")[1]
            if c == 0:
                return out
            if c < 0:
                c = -c
                cur.take("long")
            for _ in range(c):
                out.append(resolve_decode(w["items"], r["items"], cur, wn, rn))
    if wk == rk == "map":
        out = {}
        while True:
            c = cur.take("long")[1]
            if c == 0:
                return out
            if c < 0:
                c = -c
                cur.take("long")
            for _ in range(c):
                key = cur.take("utf8", "bytes")[1]
                out[key] = resolve_decode(w["values"], r["values"], cur, wn, rn)
    if wk == rk == "enum":
        sym = decode(w, cur, wn)
        if not names_match(w, r):
            raise NoResolution("enum names differ")
        if sym in r["symbols"]:
            return sym
        if "default" in r:
            return r["default"]
        raise NoResolution("symbol unknown to the reader and no default")
    if wk == rk == "fixed":
        v = decode(w, cur, wn)
        if not names_match(w, r) or w["size"] != r["size"]:
            raise NoResolution("fixed name or size differ")
        return v
    if wk == rk == "record":
        if not names_match(w, r):
            decode(w, cur, wn)
            raise NoResolution("record names differ")
        by_name = {}
        for f in r["fields"]:
            by_name[f["name"]] = f
        by_alias = {}
        for f in r["fields"]:
            for a in f.get("aliases", []):
                by_alias[a] = f
        out = {}
        err = None
        for wf in w["fields"]:
            rf = by_name.get(wf["name"]) or by_alias.get(wf["name"])
            if rf is None:
                decode(wf["t"], cur, wn)  # writer-only field: skipped
                continue
            try:
                out[rf["name"]] = resolve_decode(wf["t"], rf["t"], cur, wn, rn)
            except NoResolution as e:
                raise
        for f in r["fields"]:
            if f["name"] not in out:
                if f["has_default"]:
                    from .ir import default_value
                    out[f["name"]] = default_value(f["t"], f["default"], rn)
                else:
                    raise NoResolution(f"reader field {f['name']} has no default")
        return out
    if wk == rk and wk not in ("array", "map", "enum", "fixed", "record"):
        return decode(w, cur, wn)
    if rk in PROMOTE.get(wk, ()):
        return promote(decode(w, cur, wn), wk, rk)
    decode(w, cur, wn)
    raise NoResolution(f"{wk} cannot be read as {rk}")
