"""Conformance of a Python datum to an Avro schema, exactly as worded in property C10
(the documented Python mapping).  Independent of fastavro."""
from collections.abc import Mapping, Sequence

from .ir import deref, branch_name

I32 = (-(1 << 31), (1 << 31) - 1)
I64 = (-(1 << 63), (1 << 63) - 1)
NOVALUE = object()


def _is_int(d):
    return isinstance(d, int) and not isinstance(d, bool)


def accepts_null(node, names):
    n = deref(node, names)
    if n["k"] == "null":
        return True
    if n["k"] == "union":
        return any(accepts_null(b, names) for b in n["branches"])
    return False


def conforms(node, d, names, strict=False, tuple_notation=True):
    n = deref(node, names)
    k = n["k"]
    if k == "null":
        return d is None
    if k == "boolean":
        return isinstance(d, bool)
    if k == "int":
        return _is_int(d) and I32[0] <= d <= I32[1]
    if k == "long":
        return _is_int(d) and I64[0] <= d <= I64[1]
    if k in ("float", "double"):
        return (isinstance(d, (int, float))) and not isinstance(d, bool)
    if k == "bytes":
        return isinstance(d, (bytes, bytearray))
    if k == "string":
        return isinstance(d, str)
    if k == "fixed":
        return isinstance(d, bytes) and len(d) == n["size"]
    if k == "enum":
        return isinstance(d, str) and d in n["symbols"]
    if k == "array":
        return (isinstance(d, Sequence) and not isinstance(d, str)
                and all(conforms(n["items"], x, names, strict, tuple_notation) for x in d))
    if k == "map":
        return (isinstance(d, Mapping) and all(isinstance(key, str) for key in d)
                and all(conforms(n["values"], x, names, strict, tuple_notation) for x in d.values()))
    if k == "record":
        if not isinstance(d, Mapping):
            return False
        if "-type" in d and d["-type"] != n["name"]:
            return False
        for f in n["fields"]:
            if f["name"] in d:
                if not conforms(f["t"], d[f["name"]], names, strict, tuple_notation):
                    return False
            elif f["has_default"]:
                # "absent fields have a default": the default is schema text (JSON form), its well-formedness is the
                # schema's business (C11); the value it denotes must conform
                from .ir import default_value
                if not conforms(f["t"], default_value(f["t"], f["default"], names), names, strict, tuple_notation):
                    return False
            else:
                if strict or not accepts_null(f["t"], names):
                    return False
        return True
    if k == "union":
        if isinstance(d, tuple) and tuple_notation:
            if len(d) != 2:
                return False
            name, val = d
            for b in n["branches"]:
                if branch_name(b, names) == name:
                    return conforms(b, val, names, strict, tuple_notation)
            return False
        return any(conforms(b, d, names, strict, tuple_notation) for b in n["branches"])
    raise AssertionError(k)
