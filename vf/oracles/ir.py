"""Independent reading of an Avro schema (written from the specification, imports
nothing from fastavro): names, namespaces, references -> a small IR.

IR node: dict(k=<kind>, ...).  kinds: the 8 primitives, enum(name, symbols, default?),
fixed(name, size), record(name, fields=[dict(name, t, has_default, default, aliases)], aliases),
array(items), map(values), union(branches), ref(name).  'lt' holds a logicalType annotation
with its attributes.  `names` maps full name -> defining node.
"""
PRIMS = ("null", "boolean", "int", "long", "float", "double", "bytes", "string")


class SchemaError(Exception):
    pass


def fullname(name, namespace, enclosing):
    """spec: a dotted name is a full name; else the explicit namespace; else the enclosing one.
    returns (namespace for children, full name)"""
    if "." in name:
        return name.rsplit(".", 1)[0], name
    ns = enclosing if namespace is None else namespace
    if ns:
        return ns, ns + "." + name
    return "", name


def to_ir(schema, ns="", names=None):
    if names is None:
        names = {}
    if isinstance(schema, list):
        return dict(k="union", branches=[to_ir(s, ns, names) for s in schema])
    if isinstance(schema, str):
        if schema in PRIMS:
            return dict(k=schema)
        full = schema if "." in schema or not ns else ns + "." + schema
        return dict(k="ref", name=full)
    if not isinstance(schema, dict):
        raise SchemaError(f"bad schema {schema!r}")
    t = schema["type"]
    lt = None
    if "logicalType" in schema:
        lt = {k: v for k, v in schema.items() if k in ("logicalType", "precision", "scale")}
    if isinstance(t, (dict, list)):
        return to_ir(t, ns, names)
    if t in PRIMS:
        n = dict(k=t)
    elif t == "array":
        n = dict(k="array", items=to_ir(schema["items"], ns, names))
    elif t == "map":
        n = dict(k="map", values=to_ir(schema["values"], ns, names))
    elif t in ("enum", "fixed", "record", "error"):
        cns, full = fullname(schema["name"], schema.get("namespace"), ns)
        if t == "enum":
            n = dict(k="enum", name=full, symbols=list(schema["symbols"]))
            if "default" in schema:
                n["default"] = schema["default"]
        elif t == "fixed":
            n = dict(k="fixed", name=full, size=schema["size"])
        else:
            n = dict(k="record", name=full, fields=[])
        n["aliases"] = list(schema.get("aliases", []))
        if full in names:
            raise SchemaError(f"redefined {full}")
        names[full] = n
        if n["k"] == "record":
            for fd in schema.get("fields", []):
                n["fields"].append(dict(name=fd["name"], t=to_ir(fd["type"], cns, names),
                                        has_default="default" in fd, default=fd.get("default"),
                                        aliases=list(fd.get("aliases", []))))
    else:
        cns = ns
        full = t if "." in t or not ns else ns + "." + t
        n = dict(k="ref", name=full)
    if lt:
        n = dict(n)
        n["lt"] = lt
    return n


def deref(node, names):
    while node["k"] == "ref":
        if node["name"] not in names:
            raise SchemaError(f"unknown type {node['name']}")
        node = names[node["name"]]
    return node


def branch_name(node, names):
    """the name a union branch goes by (spec JSON encoding / fastavro hints)"""
    n = deref(node, names)
    if n["k"] in ("record", "enum", "fixed"):
        return n["name"]
    return n["k"]


def default_value(node, j, names, depth=0):
    """the value a JSON default denotes for a field of the given type (specification: bytes and fixed defaults are
    JSON strings whose code points 0-255 are the byte values; a union default belongs to the first branch; records,
    arrays and maps recursively).  Anything that does not have the expected JSON shape is returned unchanged."""
    n = deref(node, names)
    k = n["k"]
    if depth > 8:
        return j
    if k in ("bytes", "fixed"):
        if isinstance(j, str):
            try:
                return j.encode("latin-1")
            except UnicodeEncodeError:
                return j
        return j
    if k == "array" and isinstance(j, list):
        return [default_value(n["items"], x, names, depth + 1) for x in j]
    if k == "map" and isinstance(j, dict):
        return {key: default_value(n["values"], x, names, depth + 1) for key, x in j.items()}
    if k == "union" and n["branches"]:
        return default_value(n["branches"][0], j, names, depth + 1)
    if k == "record" and isinstance(j, dict):
        out = {}
        for f in n["fields"]:
            if f["name"] in j:
                out[f["name"]] = default_value(f["t"], j[f["name"]], names, depth + 1)
            elif f["has_default"]:
                out[f["name"]] = default_value(f["t"], f["default"], names, depth + 1)
        return out
    return j
