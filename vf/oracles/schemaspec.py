"""Independent statement of which schemas the Avro specification (and property C11's list of
ill-formed cases) accepts or rejects.  Returns a verdict for a raw schema JSON:
  ('ok', names)           valid: names maps full name -> kind
  ('bad', reason)         must be rejected (one of the listed ill-formed kinds)
  ('silent', reason)      the property's list does not decide (nothing asserted)
"""
import re

from . import ir as IR

SYMBOL = re.compile(r"[A-Za-z_][A-Za-z0-9_]*\Z")


class Bad(Exception):
    pass


class Silent(Exception):
    pass


def default_kind_ok(node, names, d):
    """JSON type of a default can match the type (any branch for unions); shallow, as the property words it"""
    n = node
    if n["k"] == "ref":
        n = names.get(n["name"])
        if n is None:
            raise Bad("unknown reference")
    k = n["k"]
    if k == "union":
        return any(default_kind_ok(b, names, d) for b in n["branches"])
    if k == "null":
        return d is None
    if k == "boolean":
        return isinstance(d, bool)
    if k in ("int", "long"):
        return isinstance(d, int) and not isinstance(d, bool)
    if k in ("float", "double"):
        if isinstance(d, bool):
            return False
        if isinstance(d, (int, float)):
            return True
        if isinstance(d, str):
            raise Silent("string default for a float (NaN/Infinity spellings)")
        return False
    if k in ("bytes", "string", "fixed", "enum"):
        return isinstance(d, str)
    if k == "array":
        return isinstance(d, list)
    if k in ("map", "record"):
        return isinstance(d, dict)
    raise AssertionError(k)


def max_precision(size):
    """largest p with 10^p - 1 <= 2^(8*size-1) - 1, i.e. floor(log10(2^(8*size-1)))  (exact integers)"""
    lim = 1 << (8 * size - 1)
    p = 0
    while 10 ** (p + 1) <= lim:
        p += 1
    return p


def check(schema, ns="", names=None, defined=None):
    """walk the raw schema; raises Bad/Silent; returns names {fullname: kind}"""
    if names is None:
        names = {}
    _walk(schema, ns, names)
    # references are resolved in definition order by the walk; full IR for defaults
    return names


def _walk(s, ns, names):
    if isinstance(s, list):
        for b in s:
            _walk(b, ns, names)
        return
    if isinstance(s, str):
        if s in IR.PRIMS:
            return
        full = s if "." in s or not ns else ns + "." + s
        if full not in names:
            raise Bad(f"reference to undefined name {full}")
        return
    if not isinstance(s, dict):
        raise Silent("schema is not a string, list or dict")
    t = s.get("type")
    if s.get("logicalType") == "decimal":
        _decimal(s)
    if isinstance(t, (dict, list)):
        raise Silent("nested type attribute")
    if t in IR.PRIMS:
        return
    if t == "array":
        return _walk(s["items"], ns, names)
    if t == "map":
        return _walk(s["values"], ns, names)
    if t in ("record", "error", "enum", "fixed"):
        if "name" not in s:
            raise Bad("named type without a name")
        cns, full = IR.fullname(s["name"], s.get("namespace"), ns)
        if full in names:
            raise Bad(f"name {full} defined twice")
        names[full] = t
        if t == "enum":
            syms = s["symbols"]
            for x in syms:
                if not isinstance(x, str) or not SYMBOL.match(x):
                    raise Bad("malformed enum symbol")
            if len(set(syms)) != len(syms):
                raise Bad("duplicate enum symbol")
            if "default" in s and s["default"] not in syms:
                raise Bad("enum default outside the symbol list")
        if t in ("record", "error"):
            for f in s.get("fields", []):
                _walk(f["type"], cns, names)
        return
    # a reference written in dict form {"type": "Name"}
    return _walk(t, ns, names)


def _decimal(s):
    p = s.get("precision")
    sc = s.get("scale", 0)
    for v, nm in ((p, "precision"), (sc, "scale")):
        if v is None:
            if nm == "precision":
                raise Silent("decimal without precision")
            continue
        if isinstance(v, bool):
            raise Silent("boolean precision/scale")
        if not isinstance(v, int):
            raise Bad(f"non-integer decimal {nm}")
        if v < 0:
            raise Bad(f"negative decimal {nm}")
    if p == 0:
        raise Silent("precision 0 (not in the property's list)")
    if sc > p:
        raise Bad("scale above precision")
    if s.get("type") == "fixed" and p > max_precision(s["size"]):
        raise Bad("precision beyond what the fixed size can hold")


def verdict(schema):
    """('ok', names) | ('bad', reason) | ('silent', reason) ; includes the field-default rule"""
    try:
        names = check(schema)
        irnames = {}
        node = IR.to_ir(schema, "", irnames)
        _defaults(node, irnames, set())
        return "ok", names
    except Bad as e:
        return "bad", str(e)
    except Silent as e:
        return "silent", str(e)
    except IR.SchemaError as e:
        return "bad", str(e)


def _defaults(n, names, seen):
    k = n["k"]
    if k == "ref":
        return
    if k == "array":
        return _defaults(n["items"], names, seen)
    if k == "map":
        return _defaults(n["values"], names, seen)
    if k == "union":
        for b in n["branches"]:
            _defaults(b, names, seen)
        return
    if k == "record":
        if n["name"] in seen:
            return
        seen.add(n["name"])
        for f in n["fields"]:
            if f["has_default"] and not default_kind_ok(f["t"], names, f["default"]):
                raise Bad(f"default {f['default']!r} cannot match the type of field {f['name']}")
            _defaults(f["t"], names, seen)
