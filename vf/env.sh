#!/bin/bash
# Idempotent, offline bootstrap of the overlay venv used by every check.
# /verif/.venv = /venv's interpreter + .pth to /venv site-packages and /repo
# + crosshair-tool and z3-solver from the local wheelhouse.
set -e
V=/verif/.venv
if [ ! -x "$V/bin/python" ] || ! "$V/bin/python" -c "import crosshair, z3" 2>/dev/null; then
  (
    flock 9
    if [ ! -x "$V/bin/python" ] || ! "$V/bin/python" -c "import crosshair, z3" 2>/dev/null; then
      rm -rf "$V"
      /venv/bin/python -m venv "$V"
      SP=$("$V/bin/python" -c "import sysconfig;print(sysconfig.get_paths()['purelib'])")
      printf "/venv/lib/python3.12/site-packages\n/repo\n" > "$SP/_overlay.pth"
      PIP_NO_INDEX=1 "$V/bin/pip" install -q --no-index --find-links /opt/veriftools/wheels crosshair-tool z3-solver >&2
    fi
  ) 9>/verif/.venv.lock
fi
