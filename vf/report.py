"""Verdict bookkeeping shared by all engines: obligations, violations with
replay scripts, known findings, evidence files, exit status."""
import hashlib
import json
import os
import subprocess
import sys
import time

ROOT = os.environ.get("VF_ROOT", "/verif")
REPO = os.environ.get("VF_REPO", "/repo")  # the tree under test (seed evaluation points this at a scratch worktree)
PY = "/verif/.venv/bin/python"


def load_known():
    p = os.path.join(ROOT, "known_findings.json")
    if not os.path.exists(p):
        return []
    return json.load(open(p)).get("findings", [])


class SetupFailure(Exception):
    """the code under test failed while a check prepared a case that is valid by construction (for example
    parse_schema rejecting a specification-valid schema of the family): reported as a violation after replay"""

    def __init__(self, key, what, replay_text):
        super().__init__(what)
        self.key, self.what, self.replay_text = key, what, replay_text


class Run:
    def __init__(self, pid, tier, seed):
        self.pid, self.tier, self.seed = pid, tier, seed
        self.t0 = time.time()
        self.obl = {}  # name -> dict(status, detail, paths, queries, solver_s)
        self.violations = []  # dict(key, what, replay, known)
        self.samples = []
        self.functions = {}
        self.bounds = []
        self.outside = []
        self.stubs = set()
        self.assumptions = []
        self.engines = set()
        self.validated = 0
        self.states = 0
        self.transitions = 0
        self.solver_s = 0.0
        self.extra = {}
        self.internal_errors = []

    # -- obligations -----------------------------------------------------
    def obligation(self, name, status, detail="", paths=0, queries=0, solver_s=0.0):
        """status: discharged | violated | inconclusive | known"""
        self.obl[name] = dict(status=status, detail=detail, paths=paths, queries=queries,
                              solver_s=round(solver_s, 3))
        self.states += paths
        self.transitions += queries
        self.solver_s += solver_s
        if status == "inconclusive" and not os.environ.get("VF_E1_WORKER"):
            print(f"INCONCLUSIVE property={self.pid} obligation={name} reason={detail}", flush=True)

    def sample(self, s):
        if len(self.samples) < 12:
            self.samples.append(s)

    # -- violations --------------------------------------------------------
    def write_replay(self, text):
        d = os.path.join(ROOT, "replays", self.pid) if REPO == "/repo" else os.path.join(
            ROOT, "replays", "_" + os.path.basename(REPO.rstrip("/")), self.pid)
        os.makedirs(d, exist_ok=True)
        h = hashlib.sha1(text.encode()).hexdigest()[:12]
        p = os.path.join(d, f"{h}.py")
        with open(p, "w") as f:
            f.write(text)
        return p

    def run_replay(self, path, timeout=300):
        """exit 1 + 'REPRODUCED' => the violation reproduces on the real code."""
        env = dict(os.environ, PYTHONPATH=f"{ROOT}:{REPO}", TZ="UTC", PYTHONDONTWRITEBYTECODE="1")
        try:
            r = subprocess.run([PY, path], capture_output=True, text=True, timeout=timeout, env=env)
        except subprocess.TimeoutExpired:
            return False, "replay timeout"
        out = (r.stdout + r.stderr).strip()
        return (r.returncode == 1 and "REPRODUCED" in r.stdout), out[-2000:]

    def violation(self, obligation, key, what, replay_text):
        """Register a solver-found counterexample.  It counts only if the replay
        reproduces it on the real code.  Returns 'violated' | 'known' | 'inconclusive'."""
        path = self.write_replay(replay_text)
        ok, out = self.run_replay(path)
        if not ok:
            print(f"NOTE property={self.pid} obligation={obligation}: model did not reproduce on the real code "
                  f"(treated as inconclusive): {out[-300:]!r} replay={path}", flush=True)
            return "inconclusive"
        self.validated += 1
        known = None
        for k in load_known():
            if k.get("property") == self.pid and k.get("status") == "known" and k.get("key") == key:
                known = k
        self.violations.append(dict(obligation=obligation, key=key, what=what, replay=path, known=bool(known)))
        if known:
            if key not in getattr(self, "_printed_known", set()):
                self._printed_known = getattr(self, "_printed_known", set()) | {key}
                print(f"KNOWN-FINDING: property={self.pid} {known.get('what', what)} [key={key}] replay={path}", flush=True)
            return "known"
        print(f"VIOLATION property={self.pid} replay={path}", flush=True)
        print(f"  obligation={obligation} key={key} what={what}", flush=True)
        return "violated"

    # -- finish ------------------------------------------------------------
    def finish(self):
        n_obl = len(self.obl)
        disc = sum(1 for o in self.obl.values() if o["status"] == "discharged")
        inc = sum(1 for o in self.obl.values() if o["status"] == "inconclusive")
        new_viol = [v for v in self.violations if not v["known"]]
        cov = dict(
            states=max(self.states, 0),
            transitions=max(self.transitions, 0),
            traces_validated_against_impl=self.validated,
            samples=self.samples or ["(no sample recorded)"],
            obligations=n_obl,
            discharged=disc,
            inconclusive=inc,
            known_findings=sum(1 for v in self.violations if v["known"]),
            evaluations=max(self.states, 0),
            distinct_nontrivial=disc,
            rule="one evaluation = one symbolic path / CrossHair condition explored; distinct_nontrivial = "
                 "obligations discharged with a satisfiable reachability witness",
            functions_encoded=self.functions,
            bounds=self.bounds,
            outside_bounds=self.outside,
            stubs=sorted(self.stubs),
            engines=sorted(self.engines),
            queries=self.transitions,
            solver_time_s=round(self.solver_s, 2),
            obligation_detail=self.obl,
            violations=self.violations,
            exhaustive=False,
        )
        cov.update(self.extra)
        ev = dict(
            property_id=self.pid,
            tier=self.tier,
            seed=self.seed,
            level="model_checking",
            coverage=cov,
            assumptions=self.assumptions,
            wall_s=round(time.time() - self.t0, 2),
            violations=len(new_viol),
        )
        # seed evaluation (a mutated scratch tree) must not overwrite the evidence of the real tree
        evdir = os.environ.get("VF_EVIDENCE_DIR") or os.path.join(ROOT, "evidence")
        os.makedirs(evdir, exist_ok=True)
        with open(os.path.join(evdir, f"{self.pid}.json"), "w") as f:
            json.dump(ev, f, indent=1, default=str)
        print(f"SUMMARY property={self.pid} tier={self.tier} obligations={n_obl} discharged={disc} "
              f"inconclusive={inc} known={cov['known_findings']} violations={len(new_viol)} "
              f"paths={self.states} queries={self.transitions} solver_s={round(self.solver_s, 1)} "
              f"wall_s={ev['wall_s']}", flush=True)
        for e in self.internal_errors:
            print("INTERNAL-ERROR", e, flush=True)
        if new_viol:
            return 1
        return 3 if self.internal_errors else 0
