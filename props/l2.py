"""Layer-2 (E2) obligations over the structural code of _write_py/_read_py for C01/C02:
real schemaless_writer / schemaless_reader above token streams (CrossHair) or real bytes
(replay)."""
import copy
import functools

from vf import rt, family, shape
from vf.oracles import ir as IR, codec, conform
from vf.shape import OutOfDomain

import fastavro._write_py as W
import fastavro._read_py as R
import fastavro._schema_py as S

CFG = shape.Cfg(K=2, SL=3, depth=2, strs="pool", floats="pool")
CFG_T = shape.Cfg(K=3, SL=3, depth=3, strs="pool", floats="pool")
# schemas whose string / float leaves stay fully symbolic at layer 2
SYM_LEAVES = {"prim_string", "prim_float", "prim_double", "pair_array_string", "pair_map_string",
              "pair_union_string", "pair_field_double", "pair_array_double"}


_CASES = {}


def case(name, thorough=False):
    """(cached by hand: CrossHair bypasses functools caches while tracing, so harness modules
    bind their case at import time)"""
    if (name, thorough) in _CASES:
        return _CASES[(name, thorough)]
    _CASES[(name, thorough)] = c = _case(name, thorough)
    return c


def _case(name, thorough):
    for n, tags, sch in family.family():
        if n == name:
            names = {}
            node = IR.to_ir(sch, "", names)
            try:
                parsed = S.parse_schema(copy.deepcopy(sch))
            except Exception as e:
                from vf.report import SetupFailure
                raise SetupFailure(
                    f"family:{n}", f"parse_schema raised {type(e).__name__}: {e} on the specification-valid schema {n} of the family",
                    "import sys, os, copy\nsys.path[:0] = [os.environ.get('VF_ROOT', '/verif'), os.environ.get('VF_REPO', '/repo')]\n"
                    "from vf import family\nimport fastavro._schema_py as S\n"
                    f"sch = [s for n, t, s in family.family() if n == {n!r}][0]\n"
                    "try:\n    S.parse_schema(copy.deepcopy(sch))\nexcept Exception as e:\n"
                    "    print('REPRODUCED: parse_schema rejects a valid schema:', type(e).__name__, e); sys.exit(1)\n"
                    "print('not reproduced'); sys.exit(0)\n")
            cfg = CFG_T if thorough else CFG
            if n in SYM_LEAVES:
                cfg = cfg.but(strs="sym", floats="sym")
            return dict(name=n, schema=sch, ir=node, names=names, parsed=parsed, cfg=cfg)
    raise KeyError(name)


def params(c):
    return f"v: {shape.ann(c['ir'], c['names'], c['cfg'])}, parsed: bool, s: int"


def ob_roundtrip(c, v, parsed, s):
    """C01: write datum then a sentinel long; read both back; nothing left over."""
    try:
        d = shape.build(c["ir"], c["names"], v, c["cfg"])
    except OutOfDomain:
        return True, "out of domain"
    if not (-(1 << 63) <= s < (1 << 63)):
        return True, "out of domain"
    sch = c["parsed"] if parsed else c["schema"]
    fo = rt.new_io()
    try:
        W.schemaless_writer(fo, sch, d)
        W.schemaless_writer(fo, "long", s)
        rt.rewind(fo)
        r1 = R.schemaless_reader(fo, sch)
        r2 = R.schemaless_reader(fo, "long")
    except Exception as e:
        return False, f"{type(e).__name__}: {e} datum={d!r}"
    want = codec.normalise(c["ir"], d, c["names"], rt.f32)
    if not _same(r1, want):
        return False, f"read back {r1!r}, expected {want!r} (datum {d!r})"
    if r2 != s:
        return False, f"sentinel read back as {r2!r}, wrote {s!r} (datum {d!r})"
    if not rt.at_end(fo):
        return False, f"bytes left over after reading (datum {d!r})"
    return True, ""


class _MissingDict(dict):
    """a dict subclass whose lookups of absent keys do not raise (like collections.defaultdict / Counter)"""

    def __missing__(self, key):
        return "<<MISSING>>"


def remap(d, mk):
    """the same datum with every dict re-spelled as another kind of mapping: 1 defaultdict(int), 2 OrderedDict,
    3 dict subclass with __missing__, 4 types.MappingProxyType"""
    import collections
    import types
    if isinstance(d, dict):
        items = {k: remap(x, mk) for k, x in d.items()}
        if mk == 1:
            r = collections.defaultdict(int)
            r.update(items)
            return r
        if mk == 2:
            return collections.OrderedDict(items)
        if mk == 3:
            return _MissingDict(items)
        if mk == 4:
            return types.MappingProxyType(items)
        return items
    if isinstance(d, list):
        return [remap(x, mk) for x in d]
    if isinstance(d, tuple) and len(d) == 2 and isinstance(d[0], str):
        return (d[0], remap(d[1], mk))
    return d


def ob_roundtrip_mk(c, v, mk):
    """C01 with records and maps given as other kinds of mappings (absent defaulted fields included)"""
    if not (1 <= mk <= 4):
        return True, "out of domain"
    try:
        d0 = shape.build(c["ir"], c["names"], v, c["cfg"])
    except OutOfDomain:
        return True, "out of domain"
    d = remap(d0, mk)
    fo = rt.new_io()
    try:
        W.schemaless_writer(fo, c["parsed"], d)
        rt.rewind(fo)
        r1 = R.schemaless_reader(fo, c["parsed"])
    except Exception as e:
        return False, f"{type(e).__name__}: {e} datum={d!r}"
    want = codec.normalise(c["ir"], d0, c["names"], rt.f32)
    if not _same(r1, want):
        return False, f"read back {r1!r}, expected {want!r} (datum {d!r} given as mapping kind {mk})"
    if mk in (1, 3) and isinstance(d, dict) and set(d.keys()) != set(d0.keys()):
        return False, f"the writer added keys to the record it was given: {sorted(d.keys())!r} (was {sorted(d0.keys())!r})"
    return True, ""


def _same(a, b):
    """equality that also distinguishes int from float and bool from int"""
    if isinstance(a, float) or isinstance(b, float):
        if not (isinstance(a, float) and isinstance(b, float)):
            return False
        if rt.tokmode():
            return a == b
        return a == b or (a != a and b != b)
    if isinstance(a, dict) and isinstance(b, dict):
        return list(a.keys()) == list(b.keys()) and all(_same(a[k], b[k]) for k in a)
    if isinstance(a, list) and isinstance(b, list):
        return len(a) == len(b) and all(_same(x, y) for x, y in zip(a, b))
    if isinstance(a, bool) != isinstance(b, bool):
        return False
    return a == b


def ob_spec(c, v, parsed, s):
    """C02: the written tokens/bytes are the specification's encoding for the branches the
    writer selected, each selected branch is one the datum conforms to, and an independent
    decoder recovers the value."""
    try:
        d = shape.build(c["ir"], c["names"], v, c["cfg"])
    except OutOfDomain:
        return True, "out of domain"
    sch = c["parsed"] if parsed else c["schema"]
    fo = rt.new_io()
    try:
        W.schemaless_writer(fo, sch, d)
    except Exception as e:
        return False, f"writer raised {type(e).__name__}: {e} datum={d!r}"
    written = rt.content(fo)
    cur = codec.Cursor(written) if rt.tokmode() else codec.ByteCursor(written)
    branches = []
    try:
        val = codec.decode(c["ir"], cur, c["names"], branches)
    except codec.SpecError as e:
        return False, f"independent decoder rejects the output: {e} datum={d!r}"
    if not cur.at_end:
        return False, f"independent decoder leaves bytes over, datum={d!r}"
    want = codec.normalise(c["ir"], d, c["names"], rt.f32)
    if not _same(val, want):
        return False, f"independent decoder reads {val!r}, expected {want!r}"
    it = iter(branches)
    bad = []

    def pick(n, dd, names):
        i = next(it)
        val = dd
        if isinstance(dd, tuple):
            val = dd[1]
        if not conform.conforms(n["branches"][i], val, names):
            bad.append((i, val))
        return i, val

    re = []
    try:
        codec.encode(c["ir"], d, c["names"], re, pick)
    except Exception as e:
        return False, f"spec re-encoding along the writer's branches failed: {type(e).__name__}: {e}"
    if bad:
        return False, f"writer selected a branch the datum does not conform to: {bad!r}"
    if rt.tokmode():
        if re != written:
            return False, f"tokens differ from the specification: wrote {written!r}, spec {re!r}"
    else:
        if codec.to_bytes(re) != written:
            return False, f"bytes differ from the specification: wrote {written!r}, spec {codec.to_bytes(re)!r}"
    return True, ""


def harnesses(tier, seed, which, want=None):
    from vf.ch import Harness
    hs = []
    for name, tags, sch in family.select(tier, seed, want):
        th = tier == "thorough"
        c = case(name, th)
        fn = {"rt": "ob_roundtrip", "spec": "ob_spec"}[which]
        if th:
            forms = [("", "parsed", params(c))]
        else:
            # quick: raw or parsed form fixed per schema by seed parity (thorough: symbolic)
            import zlib
            fixed = bool((zlib.crc32(name.encode()) + seed) & 1)
            forms = [(".parsed" if fixed else ".raw", repr(fixed), params(c).replace(", parsed: bool", ""))]
        for suffix, pexpr, ps in forms:
            call = f"{fn}(C, v, {pexpr}, s)"
            hs.append(Harness(f"l2.{which}.{name}{suffix}", "props.l2", ps, call + "[0]", replay_call=call,
                              setup=f"C = case({name!r}, {th})", what=f"{which} over schema {name}"))
        if which == "rt" and name in ("rec_defaults", "rec_defaults3", "rec_defaults2", "rec_flat", "pair_map_long", "union_two_recs"):
            a = shape.ann(c["ir"], c["names"], c["cfg"])
            call = "ob_roundtrip_mk(C, v, mk)"
            sv = shape.samples(c["ir"], c["names"], c["cfg"], seed + 31, n=2)
            hs.append(Harness(f"l2.rt_mappings.{name}", "props.l2", f"v: {a}, mk: int", call + "[0]", replay_call=call,
                              setup=f"C = case({name!r}, {th})", what=f"round trip over schema {name} with other mapping kinds",
                              samples=[(sv[0], 1), (sv[-1], 3)]))
    return hs


def validate_standins(run, tier, seed, which="rt"):
    """Engine validation: the same obligation on sampled data must agree between the token
    stand-ins and the real byte-level code (reachability witnesses at the same time)."""
    from vf import tok
    n = 0
    fnc = {"rt": ob_roundtrip, "spec": ob_spec}[which]
    for name, tags, sch in family.select(tier, seed):
        c = case(name, tier == "thorough")
        for v in shape.samples(c["ir"], c["names"], c["cfg"], seed + 1, n=4):
            real = fnc(c, v, True, 5)
            tok.install()
            try:
                t = fnc(c, v, False, -77)
            finally:
                tok.uninstall()
            n += 1
            if real[0] != t[0]:
                run.internal_errors.append(f"token stand-ins disagree with real bytes on {name} {v!r}: real={real} tok={t}")
            elif len(run.samples) < 6:
                run.sample(dict(schema=name, shape_value=repr(v), holds=real[0]))
    run.validated += n
    return n


def describe(run, tier):
    th = tier == "thorough"
    cfg = CFG_T if th else CFG
    run.bounds += [
        f"layer 2 (E2): schema family F ({len(family.family())} schemas; quick tier: seed-chosen subset), "
        f"collections <= {cfg.K} elements, bytes <= {cfg.SL}, reference unfolding depth {cfg.depth}; "
        "int/long leaves over their full range; string/float leaves chosen by symbolic index from a pool "
        f"except in {sorted(SYM_LEAVES)} where they are symbolic (<= {cfg.SL} chars); map keys k0,k1,..",
    ]
    run.outside += ["schemas outside F", f"collections longer than {cfg.K} elements at layer 2 (count prefix: all values, layer 1)",
                    "NaN payload bits (NaN compared by class)", "the Cython mirrors (*.pyx)"]
    run.assumptions += ["token contract T1-T5 (proved by E1 on the real encoder/decoder) justifies the token stand-ins",
                        "CrossHair's 'Confirmed over all paths' is exhaustive within the harness preconditions"]
    for m in ("fastavro._write_py", "fastavro._read_py", "fastavro._schema_py", "fastavro._validation_py"):
        import hashlib, importlib, inspect
        run.functions[m] = "sha1:" + hashlib.sha1(open(inspect.getsourcefile(importlib.import_module(m))).read().encode()).hexdigest()
