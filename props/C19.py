"""C19 - load_schema from per-type files is equivalent to parsing the same types inlined."""
from vf import ch
from . import l2, l19


def run(run, tier):
    hs = l19.harnesses(tier, run.seed)
    ch.run_harnesses(run, "C19", hs, timeout=200 if tier == "quick" else 300)
    l2.describe(run, tier)
    run.bounds += [f"dependency graphs over n = 3{' and 4' if tier == 'thorough' else ''} named types in which every type is reachable from "
                   "the top record (one harness per edge set: diamonds and repeated use arise from the edge set); per edge the position "
                   "(field, array item, map value, union branch) and the spelling (qualified / namespace-relative) are symbolic; per type "
                   "the namespace (two namespaces) is symbolic; leaves are records, enums or fixed (symbolic); any one reachable file "
                   "missing (symbolic index); load_schema and load_schema_ordered (symbolic)"]
    run.outside += ["real directory I/O: open() inside fastavro.repository.flat_dict is an in-memory table",
                    "cyclic dependency graphs, more than 4 types"]
    run.stubs |= {"open() in fastavro.repository.flat_dict -> in-memory file table"}
    import hashlib, importlib, inspect
    for m in ("fastavro._schema_py", "fastavro.repository.flat_dict", "fastavro.repository.base"):
        run.functions[m] = "sha1:" + hashlib.sha1(open(inspect.getsourcefile(importlib.import_module(m))).read().encode()).hexdigest()
