"""C20, E1 part: leaf ranges of gen_data against the type ranges and the logical readers; and the
non-terminating recursion finding."""
import z3

from vf.e1 import E1Runner, Z
from vf.symex import core, hooks, timemodels as tm

UT = "fastavro.utils"
LR = "fastavro._logical_readers_py"
hooks.METHOD_MODELS.update(tm.METHOD_MODELS)

LEAVES = [
    ("int", None, (-(1 << 31), (1 << 31) - 1)),
    ("long", None, (-(1 << 63), (1 << 63) - 1)),
    ("int", "date", None), ("int", "time-millis", None), ("long", "time-micros", None),
    ("long", "timestamp-millis", None), ("long", "timestamp-micros", None),
    ("long", "local-timestamp-millis", None), ("long", "local-timestamp-micros", None),
]


class SymRandom:
    def __init__(self, m):
        self.m, self.n = m, 0

    def randint(self, a, b):
        self.n += 1
        return self.m.int(f"draw{self.n}", a, b, arith=True)


def _leaf_harness(typ, lt, rng):
    def h(m):
        u = m.mod(UT)
        schema = {"type": typ}
        if lt:
            schema["logicalType"] = lt
        if m.sym:
            saved = u.random
            u.random = SymRandom(m)
            try:
                v = u.gen_data(schema, {})
            finally:
                u.random = saved
        else:
            v = int(m.values["draw1"])
        name = f"{typ}-{lt}" if lt else typ
        lo, hi = (-(1 << 31), (1 << 31) - 1) if typ == "int" else (-(1 << 63), (1 << 63) - 1)
        zv = v.e if isinstance(v, core.SInt) else z3.IntVal(v)
        m.prove(f"leaf.{name}.in_type_range", z3.And(zv >= lo, zv <= hi), f"generated {name} outside the {typ} range")
        if lt:
            rd = m.mod(LR)
            fn = rd.LOGICAL_READERS[f"{typ}-{lt}"]
            try:
                fn(v, schema, None)
            except Exception as e:
                m.fail(f"leaf.{name}.reader_accepts", f"logical reader raised {type(e).__name__} on a generated value")
                return
            m.prove(f"leaf.{name}.reader_accepts", True)
    h.__name__ = "h_leaf_" + (f"{typ}_{lt}" if lt else typ).replace("-", "_")
    h.__qualname__ = h.__name__  # registered in the module namespace below, so workers can import it by name
    return h


HARNESS = {}
for typ, lt, rng in LEAVES:
    _h = _leaf_harness(typ, lt, rng)
    HARNESS[_h.__name__] = _h
    globals()[_h.__name__] = _h


def run_e1(run, tier):
    from props import C16
    C16.prove_lemmas(run, "quick")
    r = E1Runner(run)
    specs = []
    for typ, lt, rng in LEAVES:
        name = f"{typ}-{lt}" if lt else typ
        h = HARNESS["h_leaf_" + (f"{typ}_{lt}" if lt else typ).replace("-", "_")]
        exp = [f"leaf.{name}.in_type_range"] + ([f"leaf.{name}.reader_accepts"] if lt else [])
        specs.append(dict(harness=h, prefix="e1", expect=exp))
    r.check_many(specs)


def known_recursion(run):
    """a type recursive through an array or map: gen_data always builds 10 elements, so generation does not terminate"""
    import subprocess
    import sys
    import os
    # in a child process with an address-space limit and a time limit: on a changed tree the generator may neither
    # terminate nor hit the recursion limit (a depth cut with 10 elements per level grows without bound)
    probe = ("import sys, os, resource\nresource.setrlimit(resource.RLIMIT_AS, (3 << 30, 3 << 30))\n"
             "sys.path[:0]=[os.environ.get('VF_REPO','/repo')]\nsys.setrecursionlimit(400)\nfrom fastavro.utils import generate_one\n"
             "s={'type':'record','name':'Tree','fields':[{'name':'kids','type':{'type':'array','items':'Tree'}}]}\n"
             "try:\n    generate_one(s)\nexcept RecursionError:\n    print('RECURSION')\n    sys.exit(0)\n"
             "except MemoryError:\n    print('MEMORY')\n    sys.exit(0)\nprint('TERMINATES')\n")
    try:
        r = subprocess.run([sys.executable, "-c", probe], capture_output=True, text=True, timeout=120,
                           env=dict(os.environ, PYTHONPATH=""))
        out = r.stdout.strip()
    except subprocess.TimeoutExpired:
        out = "TIMEOUT"
    if out not in ("RECURSION", "TERMINATES"):
        run.obligation("recursion.array", "inconclusive", f"generate_one on Tree{{kids: array<Tree>}}: {out or 'no answer'} within 120 s / 3 GB", paths=1)
        return
    ok = out == "TERMINATES"
    if ok:
        run.obligation("recursion.array", "discharged", "generate_one terminates on Tree{kids: array<Tree>}", paths=1)
        return
    text = ("import sys, os\nsys.path[:0]=[os.environ.get('VF_REPO','/repo')]\nsys.setrecursionlimit(400)\nfrom fastavro.utils import generate_one\n"
            "s={'type':'record','name':'Tree','fields':[{'name':'kids','type':{'type':'array','items':'Tree'}}]}\n"
            "try:\n    generate_one(s)\nexcept RecursionError:\n    print('REPRODUCED generate_one does not terminate on a type recursive through an array')\n    sys.exit(1)\nprint('ok')\n")
    v = run.violation("recursion.array", "generate:recursive-through-collection",
                      "generate_one(Tree{kids: array<Tree>}) raises RecursionError (every array gets 10 elements)", text)
    run.obligation("recursion.array", v if v != "inconclusive" else "inconclusive", "RecursionError", paths=1)
