"""C06: truncated or sync-corrupted container files never yield records that were not written.
The REAL byte-level reader runs under CrossHair (no token stand-ins); the files are concrete,
the cut offset / the corrupted position are the symbolic variables."""
import io

from vf.oracles import container

import fastavro._write_py as W
import fastavro._read_py as R

SCHEMA = {"type": "record", "name": "T", "fields": [
    {"name": "id", "type": "long"}, {"name": "s", "type": "string"},
    {"name": "u", "type": ["null", "int"]}, {"name": "xs", "type": {"type": "array", "items": "int"}}]}
RECORDS = [
    {"id": 1, "s": "alpha", "u": None, "xs": []},
    {"id": -2, "s": "", "u": 77, "xs": [1, 2, 3]},
    {"id": 300, "s": "gamma-gamma", "u": None, "xs": [64]},
    {"id": 4, "s": "d", "u": -1, "xs": []},
    {"id": 5, "s": "eeee", "u": 5, "xs": [5, 5]},
]
PRIM = ("long", [0, -1, 64, 1 << 40])
CODECS = ["null", "deflate", "bzip2", "xz"]
MARK = b"\x10\x11\x12\x13\x14\x15\x16\x17\x18\x19\x1a\x1b\x1c\x1d\x1e\x1f"

_FILES = {}


def build(kind, codec, nrec, si):
    key = (kind, codec, nrec, si)
    if key in _FILES:
        return _FILES[key]
    if kind == "many":
        # >= 64 records per block: the block's record count is a multi-byte varint
        schema, recs = "long", [(-1) ** i * i for i in range(nrec)]
    else:
        schema, recs = (SCHEMA, RECORDS[:nrec]) if kind == "rec" else (PRIM[0], PRIM[1][:nrec])
    fo = io.BytesIO()
    W.writer(fo, schema, recs, codec=codec, sync_interval=si, sync_marker=MARK)
    data = fo.getvalue()
    p = container.parse_bytes(data)  # independent parser: boundaries, markers, per-block counts
    boundaries = [p["header_len"]] + [b["offset"] + b["size"] for b in p["blocks"]]
    counts = [b["count"] for b in p["blocks"]]
    f = dict(data=data, records=recs, boundaries=boundaries, counts=counts, header_len=p["header_len"],
             name=f"{kind}-{codec}-{nrec}rec-si{si}", n=len(data))
    _FILES[key] = f
    return f


class CutStream:
    """sequential input that ends at offset c (symbolic): read() never delivers bytes at or beyond c"""

    def __init__(self, data, c):
        self.data, self.c, self.pos = data, c, 0

    def read(self, n=-1):
        if n is None or n < 0:
            n = len(self.data) - self.pos
        end = min(self.pos + n, len(self.data))
        if end <= self.c:
            out = self.data[self.pos:end]
        else:
            k = 0
            for j in range(end - self.pos):
                if self.pos + j == self.c:
                    k = j
            out = self.data[self.pos:self.pos + k]
        self.pos += len(out)
        return out

    def tell(self):
        return self.pos


class FlipStream:
    """sequential input whose byte at offset p (symbolic) is XORed with mask"""

    def __init__(self, data, p, mask):
        self.data, self.p, self.mask, self.pos = data, p, mask, 0

    def read(self, n=-1):
        if n is None or n < 0:
            n = len(self.data) - self.pos
        out = self.data[self.pos:self.pos + n]
        for j in range(len(out)):
            if self.pos + j == self.p:
                out = out[:j] + bytes([out[j] ^ self.mask]) + out[j + 1:]
        self.pos += len(out)
        return out

    def tell(self):
        return self.pos


def _consume(stream, use_blocks, got):
    if use_blocks:
        for b in R.block_reader(stream):
            for r in b:
                got.append(r)
    else:
        for r in R.reader(stream):
            got.append(r)


def ob_cut(f, c, use_blocks):
    if not (0 <= c <= f["n"]):
        return True, "out of domain"
    got = []
    ended = False
    try:
        _consume(CutStream(f["data"], c), use_blocks, got)
        ended = True
    except Exception:
        pass
    if got != f["records"][:len(got)]:
        return False, f"{f['name']} cut at {c}: yielded {got!r}, which is not a prefix of what was written"
    if ended:
        onb = False
        for b in f["boundaries"]:
            if c == b:
                onb = True
        if not onb:
            return False, f"{f['name']} cut at {c}: iteration ended normally although {c} is not a block boundary {f['boundaries']!r}"
    return True, ""


def ob_sync(f, p, mi, use_blocks):
    """flip one byte of a block's trailing sync marker: an error when that block is reached; nothing unwritten"""
    mask = None
    for i, m in enumerate((0x01, 0x80, 0xFF)):
        if mi == i:
            mask = m
    if mask is None:
        return True, "out of domain"
    blk = None
    for i, b in enumerate(f["boundaries"][1:]):
        if b - 16 <= p < b:
            blk = i
    if blk is None:
        return True, "out of domain"
    got = []
    ended = False
    try:
        _consume(FlipStream(f["data"], p, mask), use_blocks, got)
        ended = True
    except Exception:
        pass
    if ended:
        return False, f"{f['name']}: corrupted sync marker of block {blk} (offset {p}) went unnoticed"
    if got != f["records"][:len(got)]:
        return False, f"{f['name']}: yielded {got!r}, not a prefix of what was written"
    before = sum(f["counts"][:blk])
    if len(got) < before or len(got) > before + f["counts"][blk]:
        return False, (f"{f['name']}: corrupted marker of block {blk}: error after {len(got)} records; "
                       f"blocks hold {f['counts']!r}")
    return True, ""


def file_specs(tier, seed):
    specs = []
    if tier == "thorough":
        for kind in ("rec", "prim"):
            for codec in CODECS:
                for nrec, si in ((0, 100), (1, 100), (3, 1), (4, 30), (5, 1000)):
                    if kind == "prim" and nrec > 4:
                        continue
                    specs.append((kind, codec, nrec, si))
        for codec in CODECS:
            specs.append(("many", codec, 70, 100000))
            specs.append(("many", codec, 130, 150))
    else:
        layouts = [(3, 1), (4, 30), (5, 1000), (1, 100)]
        for i, codec in enumerate(CODECS):
            specs.append(("rec", codec, *layouts[(i + seed) % 4]))
            specs.append(("rec" if (i + seed) % 2 else "prim", codec, *layouts[(i + seed + 2) % 4][:2]))
        specs.append(("prim", "null", 0, 100))
        specs.append(("many", CODECS[seed % 2], 70, 100000))
    return [s if not (s[0] == "prim" and s[2] > 4) else (s[0], s[1], 4, s[3]) for s in specs]


def harnesses(tier, seed):
    from vf.ch import Harness
    hs = []
    for i, spec in enumerate(file_specs(tier, seed)):
        f = build(*spec)
        setup = f"F = build{spec!r}"
        ubs = (False, True) if tier == "thorough" else ((i % 2 == 1),)
        for ub in ubs:
            call = f"ob_cut(F, c, {ub})"
            hs.append(Harness(f"cut.{'block_reader' if ub else 'reader'}.{f['name']}", "props.l6", "c: int", call + "[0]",
                              replay_call=call, setup=setup, mode="real", what=f"truncation of {f['name']}",
                              key=lambda a, k, nm=f["name"]: f"cut:{nm}:{a[0]}"))
        if spec[2] > 0 and (tier == "thorough" or i % 2 == 0):
            call = f"ob_sync(F, p, mi, {ubs[0]})"
            hs.append(Harness(f"sync.{f['name']}", "props.l6", "p: int, mi: int", call + "[0]", replay_call=call,
                              setup=setup, mode="real", what=f"sync marker corruption in {f['name']}"))
    return hs
