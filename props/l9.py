"""C09: union branch choice - deterministic, honours hints, closed under read/write."""
from vf import rt, family, shape
from vf.oracles import ir as IR, codec
from vf.shape import OutOfDomain
from . import l2

import fastavro._write_py as W
import fastavro._read_py as R

UNION_SCHEMAS = ["union_same_short_names", "union_enum_two_similar_recs", "union_rec_alldefault", "union_empty_rec", "union_two_enums_one_rec", "union_float_dictdouble", "union_recs_by_ref", "union_nested_arrays", "union_prims", "union_two_recs", "union_named_mix", "union_arr_map", "union_float_double",
                 "union_overlap", "union_in_array_named", "union_map_rec", "pair_union_enum", "pair_union_fixed",
                 "pair_union_record", "pair_union_array", "pair_union_map", "pair_array_union", "pair_map_union",
                 "pair_field_union", "chain_arr_union_map", "chain_rec_union_rec_arr", "rec_list", "rec_mutual",
                 "rec_defaults", "pair_union_double", "pair_union_dictint", "union_double_float"]
QUICK = ["union_prims", "union_two_recs", "union_named_mix", "union_float_double", "union_overlap", "union_recs_by_ref",
         "union_nested_arrays",
         "union_in_array_named", "union_map_rec", "pair_union_record", "pair_array_union", "rec_list",
         "chain_rec_union_rec_arr", "union_arr_map", "union_rec_alldefault", "union_empty_rec", "union_two_enums_one_rec", "union_float_dictdouble", "union_same_short_names", "union_enum_two_similar_recs"]


def _written(fo):
    return rt.content(fo)


def ob_choice(c, v, hs, dtn):
    """the written encoding is the specification's encoding with every union index chosen by the
    stated rule; a hint naming no branch is an error; writing twice gives the same output"""
    for h in hs:
        if not (0 <= h <= 3):
            return True, "out of domain"
    hints = shape.Hints(hs)
    try:
        # with tuple notation disabled a tuple is an ordinary sequence: array data are then built as tuples
        d = shape.build(c["ir"], c["names"], v, c["cfg"].but(tuples=True) if dtn else c["cfg"], hints=hints)
    except OutOfDomain:
        return True, "out of domain"
    if dtn and (hints.wrong or any(h in (1, 3) for h in hs)):
        return True, "out of domain"
    want = []
    expect_error = False
    # (a wrong hint is an error only where the rule actually reaches it: a record carrying it in
    # a key that the selected branch does not have simply conforms to that other branch)
    try:
        codec.encode(c["ir"], d, c["names"], want,
                     pick=lambda n, dd, names: codec.choose_branch(n, dd, names, tuple_notation=not dtn))
    except codec.Silent:
        return True, "statement silent"
    except codec.SpecError:
        expect_error = True
    outs = []
    for _ in range(2):
        fo = rt.new_io()
        try:
            W.schemaless_writer(fo, c["parsed"], d, disable_tuple_notation=dtn)
        except Exception as e:
            if expect_error:
                outs.append(("error",))
                continue
            return False, f"writer raised {type(e).__name__}: {e} for {d!r}"
        if expect_error:
            return False, f"writer accepted {d!r} although no branch applies / the hint names no branch"
        outs.append(_written(fo))
    if outs[0] != outs[1]:
        return False, f"two runs differ for {d!r}"
    if expect_error:
        return True, ""
    if rt.tokmode():
        if outs[0] != want:
            return False, f"branches differ from the rule: wrote {outs[0]!r}, rule gives {want!r} for {d!r}"
    elif outs[0] != codec.to_bytes(want):
        return False, f"branches differ from the rule: wrote {outs[0]!r}, rule gives {codec.to_bytes(want)!r} for {d!r}"
    return True, ""


# several named branches accept the same bare value: closure is asserted when the reporting option that names them is on
AMBIGUOUS = {"union_two_enums_one_rec": "rnt", "union_same_short_names": "any", "union_enum_two_similar_recs": "any"}


def ob_closure(c, v, rrn, rrno, rnt, rnto):
    """reading with name reporting and writing the result back reproduces the identical output"""
    if c["name"] in AMBIGUOUS and not (rnt or (AMBIGUOUS[c["name"]] == "any" and rrn)):
        return True, "statement silent: closure is stated for named-type reporting"
    try:
        # ambiguous named branches: the first write names its branch with a (name, value) hint, otherwise the later
        # of two branches accepting the same value could never be written
        d = shape.build(c["ir"], c["names"], v, c["cfg"], hints=shape.Hints((1, 1, 1)) if c["name"] in AMBIGUOUS else None)
    except OutOfDomain:
        return True, "out of domain"
    fo = rt.new_io()
    try:
        W.schemaless_writer(fo, c["parsed"], d)
    except Exception as e:
        return False, f"writer raised {type(e).__name__}: {e} for {d!r}"
    first = _written(fo)
    rt.rewind(fo)
    try:
        r = R.schemaless_reader(fo, c["parsed"], None, return_record_name=rrn, return_record_name_override=rrno,
                                return_named_type=rnt, return_named_type_override=rnto)
    except Exception as e:
        return False, f"reader raised {type(e).__name__}: {e} for {d!r}"
    fo2 = rt.new_io()
    try:
        W.schemaless_writer(fo2, c["parsed"], r)
    except Exception as e:
        return False, f"writing back {r!r} raised {type(e).__name__}: {e} (original {d!r})"
    if _written(fo2) != first:
        return False, f"writing back {r!r} gives {_written(fo2)!r}, original output {first!r}"
    return True, ""


def harnesses(tier, seed):
    from vf.ch import Harness
    hs = []
    th = tier == "thorough"
    names = UNION_SCHEMAS if th else QUICK
    for name in names:
        c = l2.case(name, th)
        a = shape.ann(c["ir"], c["names"], c["cfg"])
        setup = f"from props.l2 import case\nC = case({name!r}, {th})"
        if not th and name != "union_nested_arrays":
            setup += "\nC = dict(C, cfg=C['cfg'].but(K=1))"
        call = "ob_choice(C, v, hs, dtn)"
        k1 = c["cfg"].but(K=1) if not th else c["cfg"]
        sv = shape.samples(c["ir"], c["names"], k1, seed + 5, n=3)
        hz = (0, 0, 0) if th else (0, 0)
        h1 = (1, 0, 0) if th else (1, 0)
        hs.append(Harness(f"choice.{name}", "props.l9", f"v: {a}, hs: Tuple[int, int{', int' if th else ''}], dtn: bool",
                          call + "[0]", replay_call=call, setup=setup, what=f"union branch choice in {name}",
                          timeout=300 if name == "union_recs_by_ref" else None,
                          samples=[(v, hz, False) for v in sv[:2]] + [(v, h1, False) for v in sv[2:]]))
        call = "ob_closure(C, v, rrn, rrno, rnt, rnto)"
        hs.append(Harness(f"closure.{name}", "props.l9", f"v: {a}, rrn: bool, rrno: bool, rnt: bool, rnto: bool",
                          call + "[0]", replay_call=call, setup=setup, what=f"read/write closure in {name}",
                          timeout=300 if name == "union_recs_by_ref" else None,
                          samples=[(v, i == 0, False, i == 1, i == 2) for i, v in enumerate(sv)]))
    return hs
