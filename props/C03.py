"""C03 - decoder accepts every spec-valid encoding; rejects bad indices and short input."""
from vf.e1 import E1Runner
from . import prim


def run(run, tier):
    r = E1Runner(run)
    prim.run_group(run, r, prim.DEC_HARNESSES + prim.PREFIX_HARNESSES)
