"""C03 - decoder accepts every spec-valid encoding; rejects bad indices and short input."""
from vf.e1 import E1Runner
from vf import ch
from . import prim, l2, l3


def run(run, tier):
    r = E1Runner(run)
    prim.run_group(run, r, prim.DEC_HARNESSES + prim.PREFIX_HARNESSES + prim.GUARD_HARNESSES + prim.SKIP_EXACT_HARNESSES + prim.SKIP_PREFIX_HARNESSES)
    ch.run_harnesses(run, "C03", l3.harnesses(tier, run.seed), timeout=100 if tier == "quick" else 250)
    l2.describe(run, tier)
    run.bounds += ["layouts: <= 3 items per array/map, every partition into blocks, each block in positive or "
                   "negative-count form with an arbitrary byte-size field; one corrupted union/enum index at any position; "
                   "cut after any token prefix (byte-level prefixes of each primitive: layer 1)"]
