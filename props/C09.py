"""C09 - union branch choice is deterministic, honours hints, closed under read/write."""
from vf import ch
from . import l2, l9


def run(run, tier):
    ch.run_harnesses(run, "C09", l9.harnesses(tier, run.seed), timeout=120 if tier == "quick" else 400)
    l2.describe(run, tier)
    if tier != "thorough":
        run.bounds += ["C09 quick tier: collections <= 1 element"]
    run.bounds += ["union schemas: " + ", ".join(l9.UNION_SCHEMAS if tier == "thorough" else l9.QUICK),
                   "hints: per union position none / (name, value) / '-type' / a name no branch has (first 2 (quick) or 3 (thorough) union "
                   "positions in encounter order); reader options: all 16 combinations; disable_tuple_notation symbolic"]
    run.outside += ["logical-type branches (C16)", "data conforming to both a record branch and a non-record branch, or carrying "
                    "'-type' while conforming to a map branch: the statement leaves the choice open (not asserted)"]
