"""C08: reading with a reader schema yields what the specification's resolution rules prescribe."""
import copy
import random

from vf import rt, family, shape, evolve
from vf.oracles import ir as IR, codec, resolve
from vf.shape import OutOfDomain
from .l2 import _same

import fastavro._write_py as W
import fastavro._read_py as R
import fastavro._schema_py as S
from fastavro._read_common import SchemaResolutionError

WRITERS = ["prim_int", "prim_long", "prim_float", "prim_string", "prim_bytes", "enum", "fixed", "rec_flat", "rec_floats",
           "rec_defaults2", "union_prims", "union_named_mix", "union_two_recs", "pair_array_record", "pair_map_union",
           "pair_field_enum", "pair_field_fixed", "pair_field_union", "pair_array_long", "chain_rec_union_rec_arr",
           "ref_after_def", "ns_inherit", "rec_list", "pair_union_record", "pair_map_int", "enum_default", "rec_enum_default"]
# leaves come from pools (incl. range extremes): resolution never looks at leaf values except to
# convert them (float(int), bytes<->str), and error paths format them (which makes CrossHair
# enumerate values); every value of every primitive is covered by C01-C03 layer 1
CFG = shape.Cfg(K=1, SL=2, depth=2, strs="pool", floats="pool", ints="pool").but(bytes="pool")
CFG_T = shape.Cfg(K=2, SL=2, depth=2, strs="pool", floats="pool", ints="pool").but(bytes="pool")

_PAIRS = None


def pairs():
    """[(writer name, label, writer schema, reader schema)] - every pair whose reader schema parses"""
    global _PAIRS
    if _PAIRS is not None:
        return _PAIRS
    fam = {n: s for n, t, s in family.family()}
    out = []
    for wn in WRITERS:
        w = fam[wn]
        for label, r in evolve.readers(w):
            try:
                S.parse_schema(copy.deepcopy(r))
            except Exception:
                continue
            out.append((wn, label, w, r))
    _PAIRS = out
    return out


def case(idx, thorough=False):
    wn, label, w, r = pairs()[idx]
    wnames, rnames = {}, {}
    wir = IR.to_ir(w, "", wnames)
    rir = IR.to_ir(r, "", rnames)
    return dict(idx=idx, wname=wn, label=label, w=w, r=r, wir=wir, rir=rir, wnames=wnames, rnames=rnames,
                wp=S.parse_schema(copy.deepcopy(w)), rp=S.parse_schema(copy.deepcopy(r)), cfg=CFG_T if thorough else CFG)


def ob_resolve(c, v, container=False):
    try:
        d = shape.build(c["wir"], c["wnames"], v, c["cfg"])
    except OutOfDomain:
        return True, "out of domain"
    fo = rt.new_io()
    try:
        W.schemaless_writer(fo, c["wp"], d)
    except Exception as e:
        return False, f"writer raised {type(e).__name__}: {e} for {d!r}"
    written = rt.content(fo)
    cur = codec.Cursor(written) if rt.tokmode() else codec.ByteCursor(written)
    try:
        want = resolve.resolve_decode(c["wir"], c["rir"], cur, c["wnames"], c["rnames"])
        werr = None
    except resolve.NoResolution as e:
        want, werr = None, str(e)
    except UnicodeDecodeError:
        return True, "bytes that are not UTF-8 read as string: not covered by the rules"
    rt.rewind(fo)
    try:
        got = R.schemaless_reader(fo, c["wp"], c["rp"])
        gerr = None
    except SchemaResolutionError as e:
        got, gerr = None, "SchemaResolutionError"
    except Exception as e:
        got, gerr = None, f"{type(e).__name__}: {e}"
    tag = f"[{c['wname']} -> {c['label']}] datum {d!r}"
    if werr is not None:
        if gerr == "SchemaResolutionError":
            return True, ""
        if gerr is None:
            return False, f"the rules give no result ({werr}) but the reader returned {got!r} {tag}"
        return False, f"the rules give no result ({werr}); expected SchemaResolutionError, got {gerr} {tag}"
    if gerr is not None:
        return False, f"the rules give {want!r} but the reader raised {gerr} {tag}"
    if not _same(got, want):
        return False, f"reader returned {got!r}, the rules give {want!r} {tag}"
    if not rt.at_end(fo):
        return False, f"input left over after resolution {tag}"
    return True, ""


def harnesses(tier, seed):
    from vf.ch import Harness
    th = tier == "thorough"
    ps = pairs()
    idxs = list(range(len(ps)))
    if not th:
        rng = random.Random(seed)
        # quick: one identity pair + a seed-chosen spread over step kinds
        by_kind = {}
        for i in idxs:
            by_kind.setdefault(ps[i][1].split("@")[0], []).append(i)
        chosen = []
        for k in sorted(by_kind):
            cand = by_kind[k]
            if "rename" in k or "reorder" in k or "drop" in k:
                # prefer writers in which the affected named type is also used by reference
                pref = [i for i in cand if ps[i][0] in ("ref_after_def", "ns_inherit")]
                if "rename" in k and pref:
                    chosen.extend(pref)  # every rename of a type that is (or contains types) used by reference
                    continue
                cand = pref or cand
            chosen.append(rng.choice(cand))
        idxs = sorted(set(chosen))[:128]
    hs = []
    for i in idxs:
        c = case(i, th)
        a = shape.ann(c["wir"], c["wnames"], c["cfg"])
        call = "ob_resolve(C, v)"
        hs.append(Harness(f"resolve.{c['wname']}.{c['label']}", "props.l8", f"v: {a}", call + "[0]", replay_call=call,
                          setup=f"C = case({i}, {th})", what=f"resolution {c['wname']} -> {c['label']}",
                          samples=[(v,) for v in shape.samples(c["wir"], c["wnames"], c["cfg"], seed + 7, n=2)],
                          key=f"resolve:{c['label'].split('@')[0]}"))
    return hs
