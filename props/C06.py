"""C06 - truncated or sync-corrupted files never yield records that were not written."""
from vf import ch
from vf.e1 import E1Runner
from . import l2, l3, l6, prim


def run(run, tier):
    prim.run_group(run, E1Runner(run), prim.PREFIX_HARNESSES + prim.SKIP_PREFIX_HARNESSES)
    hs = l6.harnesses(tier, run.seed)
    # schemaless prefixes at token level (the byte-level prefixes of each primitive are the E1 obligations above)
    cuts = [h for h in l3.harnesses(tier, run.seed) if h.name.startswith("l2.cut.")]
    ch.run_harnesses(run, "C06", hs + cuts, timeout=150 if tier == "quick" else 500)
    l2.describe(run, tier)
    specs = l6.file_specs(tier, run.seed)
    run.bounds += [f"{len(specs)} container files written by the real writer ({', '.join(l6.build(*s)['name'] for s in specs)}); "
                   "for each file EVERY cut offset 0..len (symbolic), reader and block_reader; one flipped byte (mask 0x01/0x80/0xFF) "
                   "at every position of every block's trailing sync marker (symbolic); block boundaries from the independent parser",
                   "schemaless: every byte prefix of every primitive (E1) and every token prefix of structured values (E2)"]
    run.outside += ["files other than the generated set (the offset dimension is complete per file)",
                    "alterations of more than one byte of a marker"]
    run.engines.add("E2 CrossHair on the real byte-level reader (no stand-ins) with a symbolic cut offset")
