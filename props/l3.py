"""Layer-2 obligations for C03: the real reader/skip code over every block layout an
independent specification writer can produce, out-of-range indices, and cuts."""
import functools

from vf import rt, family, shape, tok
from vf.oracles import ir as IR, codec
from vf.shape import OutOfDomain
from .l2 import _same

import fastavro._read_py as R
import fastavro._schema_py as S

CFG = shape.Cfg(K=2, SL=2, depth=2, strs="pool", floats="pool")
CFG_T = shape.Cfg(K=3, SL=2, depth=2, strs="pool", floats="pool")
BADR = 8  # corrupted indices in [-8, 8] at layer 2 (error messages format the index, which makes
# CrossHair enumerate its values); every int index is covered by the E1 obligations in C03.py
ZEROS = 16  # zero bytes appended after the value, so a decoder that runs on reads something


class Layout:
    def __init__(self, cuts, negs, bs, k=-1, bad=0):
        self.cuts, self.negs, self.bs = list(cuts), list(negs), bs
        self.ci = self.ni = 0
        self.k, self.bad, self.count, self.hit = k, bad, 0, False

    def cut(self):
        self.ci += 1
        return self.cuts[self.ci - 1] if self.ci <= len(self.cuts) else False

    def neg(self):
        self.ni += 1
        return self.negs[self.ni - 1] if self.ni <= len(self.negs) else False

    def index(self, i, n):
        """index token for a union/enum position with n alternatives"""
        c = self.count
        self.count += 1
        if c == self.k:
            if 0 <= self.bad < n:
                raise OutOfDomain()
            self.hit = True
            self.hit_at = None
            return self.bad
        return i


def encode_blocks(node, d, names, out, lay):
    """specification writer with a free block layout (independent of fastavro)"""
    n = IR.deref(node, names)
    k = n["k"]
    if k in ("array", "map"):
        items = list(d) if k == "array" else list(d.items())
        blocks, curb = [], []
        for i, it in enumerate(items):
            if i > 0 and lay.cut():
                blocks.append(curb)
                curb = []
            curb.append(it)
        if curb:
            blocks.append(curb)
        for b in blocks:
            if lay.neg():
                out.append(("long", -len(b)))
                out.append(("long", lay.bs))
            else:
                out.append(("long", len(b)))
            for it in b:
                if k == "array":
                    encode_blocks(n["items"], it, names, out, lay)
                else:
                    out.append(("utf8", it[0]))
                    encode_blocks(n["values"], it[1], names, out, lay)
        out.append(("long", 0))
    elif k == "record":
        for f in n["fields"]:
            if f["name"] in d:
                encode_blocks(f["t"], d[f["name"]], names, out, lay)
            elif f["has_default"]:
                encode_blocks(f["t"], f["default"], names, out, lay)
            else:
                encode_blocks(f["t"], None, names, out, lay)
    elif k == "union":
        i, val = codec.choose_branch(n, d, names)
        idx = lay.index(i, len(n["branches"]))
        if lay.hit and getattr(lay, "hit_at", 0) is None:
            lay.hit_at = len(out)
        out.append(("long", idx))
        encode_blocks(n["branches"][i], val, names, out, lay)
    elif k == "enum":
        idx = lay.index(n["symbols"].index(d), len(n["symbols"]))
        if lay.hit and getattr(lay, "hit_at", 0) is None:
            lay.hit_at = len(out)
        out.append(("long", idx))
    else:
        codec.encode(n, d, names, out)


_CASES = {}


def case(name, thorough=False):
    if (name, thorough) in _CASES:
        return _CASES[(name, thorough)]
    _CASES[(name, thorough)] = c = _case(name, thorough)
    return c


def _case(name, thorough):
    for nme, tags, sch in family.family():
        if nme == name:
            wsch = {"type": "record", "name": "SkipW", "fields": [
                {"name": "x", "type": sch}, {"name": "z", "type": "long"}]}
            rsch = {"type": "record", "name": "SkipW", "fields": [{"name": "z", "type": "long"}]}
            names = {}
            node = IR.to_ir(wsch, "", names)
            x = node["fields"][0]["t"]
            return dict(name=nme, schema=sch, x=x, w=node, names=names, wsch=S.parse_schema(wsch),
                        rsch=S.parse_schema(rsch), cfg=CFG_T if thorough else CFG)
    raise KeyError(name)


def _stream(toks):
    toks = list(toks) + [("long", 0)] * ZEROS
    if rt.tokmode():
        fo = tok.TokIO()
        fo.toks = toks
        return fo, len(toks)
    import io
    b = codec.to_bytes(toks)
    return io.BytesIO(b), len(b)


def _pos(fo):
    return fo.pos if isinstance(fo, tok.TokIO) else fo.tell()


def _prep(c, v, z, cuts, negs, bs, k=-1, bad=0):
    d = shape.build(c["x"], c["names"], v, c["cfg"])
    if not (-(1 << 63) <= z < (1 << 63)) or not (-(1 << 63) <= bs < (1 << 63)) or not (-BADR <= bad <= BADR):
        raise OutOfDomain()
    lay = Layout(cuts, negs, bs, k, bad)
    toks = []
    rec = {"x": d, "z": z}
    encode_blocks(c["w"], rec, c["names"], toks, lay)
    return d, rec, toks, lay


def ob_layout(c, v, z, cuts, negs, bs, skip):
    """(a) every block layout reads back as the value; (b) skipping it consumes exactly the same input"""
    try:
        d, rec, toks, lay = _prep(c, v, z, cuts, negs, bs)
    except OutOfDomain:
        return True, "out of domain"
    fo, n = _stream(toks)
    if not skip:
        want = {"x": codec.normalise(c["x"], d, c["names"], rt.f32), "z": z}
        try:
            r = R.schemaless_reader(fo, c["wsch"])
        except Exception as e:
            return False, f"read raised {type(e).__name__}: {e} on layout {toks!r}"
        if not _same(r, want):
            return False, f"read {r!r}, independent decoder gives {want!r} for {toks!r}"
        if _pos(fo) != n - ZEROS:
            return False, f"read consumed a different amount of input for {toks!r}"
        return True, ""
    try:
        r = R.schemaless_reader(fo, c["wsch"], c["rsch"])
    except Exception as e:
        return False, f"skip raised {type(e).__name__}: {e} on layout {toks!r}"
    if not _same(r, {"z": z}):
        return False, f"after skipping, the next field read {r!r}, expected z={z!r} for {toks!r}"
    if _pos(fo) != n - ZEROS:
        return False, f"skip consumed a different amount of input for {toks!r}"
    return True, ""


def ob_badindex(c, v, z, k, bad, skip):
    """(c) an out-of-range union/enum index at any position raises, when read and when skipped"""
    try:
        d, rec, toks, lay = _prep(c, v, z, (), (), 0, k, bad)
    except OutOfDomain:
        return True, "out of domain"
    if not lay.hit:
        return True, "out of domain"
    fo, n = _stream(toks)
    try:
        if skip:
            r = R.schemaless_reader(fo, c["wsch"], c["rsch"])
        else:
            r = R.schemaless_reader(fo, c["wsch"])
    except tok.Misaligned:
        return False, f"index {bad} accepted (decoder ran on into the next token) for {toks!r}"
    except Exception:
        if rt.tokmode() and fo.pos > lay.hit_at + 1:
            return False, f"index {bad} accepted (decoder consumed further tokens before failing) for {toks!r}"
        return True, ""
    return False, f"index {bad} out of range returned {r!r} ({'skip' if skip else 'read'}) for {toks!r}"


def ob_cut(c, v, z, cut, skip):
    """(d) input ending after any proper token prefix raises"""
    try:
        d, rec, toks, lay = _prep(c, v, z, (), (), 0)
    except OutOfDomain:
        return True, "out of domain"
    if not (0 <= cut < len(toks)):
        return True, "out of domain"
    if rt.tokmode():
        fo = tok.TokIO()
        fo.toks = toks[:cut]
    else:
        import io
        fo = io.BytesIO(codec.to_bytes(toks[:cut]))
    try:
        if skip:
            r = R.schemaless_reader(fo, c["wsch"], c["rsch"])
        else:
            r = R.schemaless_reader(fo, c["wsch"])
    except Exception:
        return True, ""
    return False, f"truncated input {toks[:cut]!r} (of {toks!r}) returned {r!r}"


def _has(node, names, kinds, seen=None):
    seen = seen or set()
    n = node
    if n["k"] == "ref":
        if n["name"] in seen:
            return False
        seen.add(n["name"])
        n = names[n["name"]]
    if n["k"] in kinds:
        return True
    subs = []
    if n["k"] == "array":
        subs = [n["items"]]
    elif n["k"] == "map":
        subs = [n["values"]]
    elif n["k"] == "union":
        subs = n["branches"]
    elif n["k"] == "record":
        subs = [f["t"] for f in n["fields"]]
    return any(_has(s, names, kinds, seen) for s in subs)


def harnesses(tier, seed):
    from vf.ch import Harness
    import zlib
    hs = []
    th = tier == "thorough"
    sel = family.select(tier, seed, want=lambda x: _has(IR.to_ir(x[2], "", {}), _names(x[2]), ("array", "map", "union", "enum")))
    if not th:
        sel = sel[:10]
    for name, tags, sch in sel:
        c = case(name, th)
        a = shape.ann(c["x"], c["names"], c["cfg"])
        par = bool((zlib.crc32(name.encode()) + seed) & 1)
        skips = (False, True) if th else (par,)
        nb = "bool, bool, bool" if th else "bool, bool"
        for skip in skips:
            tag = "skip" if skip else "read"
            if _has(c["x"], c["names"], ("array", "map")):
                call = f"ob_layout(C, v, z, cuts, negs, bs, {skip})"
                hs.append(Harness(f"l2.layout.{tag}.{name}", "props.l3",
                                  f"v: {a}, z: int, cuts: Tuple[{nb}], negs: Tuple[{nb}], bs: int",
                                  call + "[0]", replay_call=call, setup=f"C = case({name!r}, {th})", what=f"block layouts of {name} ({tag})",
                                  samples=[(v, 5, (True,) * (3 if th else 2), (i == 0,) * (3 if th else 2), 9)
                                           for i, v in enumerate(shape.samples(c["x"], c["names"], c["cfg"], seed + 11, n=2))]))
            call = f"ob_cut(C, v, z, cut, {skip})"
            hs.append(Harness(f"l2.cut.{tag}.{name}", "props.l3", f"v: {a}, z: int, cut: int",
                              call + "[0]", replay_call=call, setup=f"C = case({name!r}, {th})", what=f"truncated encoding of {name} ({tag})"))
        if _has(c["x"], c["names"], ("union", "enum")):
            call = f"ob_badindex(C, v, z, k, bad, skip)"
            hs.append(Harness(f"l2.badindex.{name}", "props.l3", f"v: {a}, z: int, k: int, bad: int, skip: bool",
                              call + "[0]", replay_call=call, setup=f"C = case({name!r}, {th})", what=f"out-of-range index in {name}",
                              key=lambda a_, k_: "index-out-of-range:" + ("negative" if a_[3] < 0 else "too-large")
                              + (":skip" if a_[4] else ":read")))
    return hs


def _names(sch):
    names = {}
    IR.to_ir(sch, "", names)
    return names
