"""C17 - results depend only on arguments: no state leaks across calls, inputs intact."""
from vf import ch
from . import l2, l17


def run(run, tier):
    inv = l17.inventory()
    run.sample(dict(kind="state inventory (recomputed from the imported modules)", cells=[f"{m}.{n}" for (m, n) in sorted(inv)][:60]))
    hs = l17.harnesses(tier, run.seed)
    ch.run_harnesses(run, "C17", hs, timeout=150 if tier == "quick" else 600)
    # validation traces: a few histories compared with a genuinely fresh interpreter
    n = 0
    for (o1, s1, d1, o2, s2, d2) in [(0, 0, 0, 1, 1, 0), (1, 0, 1, 3, 1, 0), (6, 3, 0, 2, 4, 0), (7, 0, 0, 4, 2, 0), (2, 4, 0, 2, 3, 0)]:
        op1, op2 = l17.OPS[o1], l17.OPS[o2]
        op1(l17.SKEYS[s1], d1, {})
        here = repr(op2(l17.SKEYS[s2], d2, {}))
        there = l17.fresh_result(o2, s2, d2)
        n += 1
        if here != there:
            run.internal_errors.append(f"history {op1.__name__};{op2.__name__}: in-process {here[:200]} vs fresh interpreter {there[:200]}")
    run.validated += n
    npairs, fails = l17.all_histories()
    run.validated += npairs
    run.sample(dict(kind="ordered pairs of catalogue calls run natively (second result == result when made first)", count=npairs))
    for f in fails[:5]:
        text = ("import sys, os\nsys.path[:0]=[os.environ.get('VF_ROOT','/verif'), os.environ.get('VF_REPO','/repo')]\n"
                "from props import l17\nn, fails = l17.all_histories()\n"
                "print('REPRODUCED' if fails else 'ok', fails[:3])\nsys.exit(1 if fails else 0)\n")
        v = run.violation("history.pairs", f"history:{f[0]}:{f[3]}", f"result depends on an earlier call: {f!r}", text)
        run.obligation("history.pairs", v if v != "inconclusive" else "inconclusive", repr(f)[:300], paths=1)
        break
    l2.describe(run, tier)
    run.bounds += [f"state inventory: {len(inv)} module-level mutable objects and mutable default arguments of fastavro.* (listed in samples)",
                   f"frame obligations (CrossHair, symbolic datum with an optional mutation so that failing calls are included): operations "
                   f"{l17.FRAME_OPS} x schemas {l17.FRAME_SCHEMAS if tier == 'thorough' else l17.FRAME_QUICK}, raw or parsed schema object",
                   f"histories: induction from the frame obligations (no call changes state that a later call can read); every ordered "
                   f"pair of {len(l17.OPS)} catalogue operations x {len(l17.SKEYS)} schemas reusing the names T/E/D with different definitions "
                   "x 2 data x shared/unshared parsed schemas is also run natively as validation, and five histories against a fresh interpreter"]
    run.outside += ["state outside fastavro.* (stdlib caches)", "histories of three or more calls (follow from the frame obligations: "
                    "no call changes state a later call can read)", "symbolic data inside the calls (the data dimension is covered by C01-C16)"]
