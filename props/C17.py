"""C17 - results depend only on arguments: no state leaks across calls, inputs intact."""
from vf import ch
from . import l2, l17


def trace_frames(run):
    """frame obligations from the access traces of the real code (every attribute/subscript store, container
    mutation and call on process-wide state or on the schema arguments is seen by the rewriter of vf.conc)"""
    import json
    from vf import conc
    from . import c18ops, C18
    try:
        recs = C18._record_all(run)
    except conc.NotInstrumentable as e:
        run.obligation("trace.instrumentation", "inconclusive", f"source construct the access rewriter does not handle: {e}", paths=1)
        return
    fresh = {}
    for a, r in recs.items():
        ws = [e for e in r["events"] if e.kind == "W"]
        ob = f"trace.frame.{a}"
        if not ws:
            run.obligation(ob, "discharged", f"{len(r['events'])} accesses to shared state, none of them a write", paths=1)
            continue
        verdict, detail = "discharged", ""
        arg_ws = [e for e in ws if e.label.startswith("<shared argument")]
        if arg_ws:
            text = c18ops.INPUTS.format(a=a)
            path = run.write_replay(text)
            ok, out = run.run_replay(path)
            if ok:
                what = f"{a} writes into the schema object it was given: {arg_ws[0].what}[{arg_ws[0].key}] at {arg_ws[0].file.split('/')[-1]}:{arg_ws[0].line}"
                verdict, detail = run.violation(ob, f"inputs:{a}", what, text), what
        st_ws = [e for e in ws if not e.label.startswith("<shared argument")]
        nrep = 0
        if st_ws and verdict == "discharged":
            for b, rb in recs.items():
                if not any(x.conflicts(w) for x in rb["events"] for w in st_ws):
                    continue
                if b not in fresh:
                    fresh[b] = c18ops.fresh(b)
                text = c18ops.HISTORY.format(a=a, b=b, expect=json.dumps(fresh[b]))
                path = run.write_replay(text)
                ok, out = run.run_replay(path)
                nrep += 1
                if ok:
                    what = (f"{a} writes process-wide state ({st_ws[0].what}[{st_ws[0].key}] at {st_ws[0].file.split('/')[-1]}:{st_ws[0].line}) "
                            f"that {b} reads: {out[-300:]}")
                    verdict, detail = run.violation(ob, f"leak:{st_ws[0].label}", what, text), what
                    break
        if verdict == "discharged":
            detail = (f"{len(ws)} writes to shared state ({sorted({e.label for e in ws})[:3]}); {nrep} two-call histories over every "
                      "operation that touches those cells replayed in fresh interpreters without a change of result")
        run.obligation(ob, verdict, detail, paths=1 + nrep)


def run(run, tier):
    inv = l17.inventory()
    run.sample(dict(kind="state inventory (recomputed from the imported modules)", cells=[f"{m}.{n}" for (m, n) in sorted(inv)][:60]))
    hs = l17.harnesses(tier, run.seed)
    ch.run_harnesses(run, "C17", hs, timeout=150 if tier == "quick" else 600)
    # validation traces: a few histories compared with a genuinely fresh interpreter
    n = 0
    for (o1, s1, d1, o2, s2, d2) in [(0, 0, 0, 1, 1, 0), (1, 0, 1, 3, 1, 0), (6, 3, 0, 2, 4, 0), (7, 0, 0, 4, 2, 0), (2, 4, 0, 2, 3, 0)]:
        op1, op2 = l17.OPS[o1], l17.OPS[o2]
        op1(l17.SKEYS[s1], d1, {})
        here = repr(op2(l17.SKEYS[s2], d2, {}))
        there = l17.fresh_result(o2, s2, d2)
        n += 1
        if here != there:
            run.internal_errors.append(f"history {op1.__name__};{op2.__name__}: in-process {here[:200]} vs fresh interpreter {there[:200]}")
    run.validated += n
    npairs, fails = l17.all_histories()
    run.validated += npairs
    run.sample(dict(kind="ordered pairs of catalogue calls run natively (second result == result when made first)", count=npairs))
    for f in fails[:5]:
        text = ("import sys, os\nsys.path[:0]=[os.environ.get('VF_ROOT','/verif'), os.environ.get('VF_REPO','/repo')]\n"
                "from props import l17\nn, fails = l17.all_histories()\n"
                "print('REPRODUCED' if fails else 'ok', fails[:3])\nsys.exit(1 if fails else 0)\n")
        v = run.violation("history.pairs", f"history:{f[0]}:{f[3]}", f"result depends on an earlier call: {f!r}", text)
        run.obligation("history.pairs", v if v != "inconclusive" else "inconclusive", repr(f)[:300], paths=1)
        break
    trace_frames(run)
    l2.describe(run, tier)
    run.bounds += ["access traces (rewritten source, vf.conc): every operation of the scenario catalogue shared with C18 is recorded from "
                   "the initial state; an operation without any write to process-wide state or to its schema arguments cannot influence a "
                   "later call; every write found is followed up by a two-call history replayed in a fresh interpreter",
                   f"state inventory: {len(inv)} module-level mutable objects and mutable default arguments of fastavro.* (listed in samples)",
                   f"frame obligations (CrossHair, symbolic datum with an optional mutation so that failing calls are included): operations "
                   f"{l17.FRAME_OPS} x schemas {l17.FRAME_SCHEMAS if tier == 'thorough' else l17.FRAME_QUICK}, raw or parsed schema object",
                   f"histories: induction from the frame obligations (no call changes state that a later call can read); every ordered "
                   f"pair of {len(l17.OPS)} catalogue operations x {len(l17.SKEYS)} schemas reusing the names T/E/D with different definitions "
                   "x 2 data x shared/unshared parsed schemas is also run natively as validation, and five histories against a fresh interpreter"]
    run.outside += ["state outside fastavro.* (stdlib caches)", "histories of three or more calls (follow from the frame obligations: "
                    "no call changes state a later call can read)", "symbolic data inside the calls (the data dimension is covered by C01-C16)"]
