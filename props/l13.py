"""C13: canonical form equals the specification's transformation; invariant under cosmetic edits; fixed
point; itself a valid schema describing the same encoding."""
import copy
import json

from vf import rt, family, shape
from vf.oracles import ir as IR, pcf as PCF, codec
from vf.shape import OutOfDomain
from . import l2, l11

import fastavro._schema_py as S
import fastavro._write_py as W

SCHEMAS = [n for n, t, s in family.family() if not n.startswith("prim_") or n in ("prim_int", "prim_dict_long")]
QUICK = ["rec_flat", "err_type", "enum", "fixed", "pair_array_record", "pair_map_union", "union_named_mix", "ref_after_def",
         "ns_inherit", "ns_dotted", "ns_switch", "ns_null", "rec_list", "rec_mutual", "rec_defaults2", "chain_rec_union_rec_arr",
         "prim_dict_long", "err_nested", "rec_two_children", "map_named_twice", "map_defines_named", "enum_default"]


def dict_positions(s, path=()):
    """every dict node (type definitions and record fields) with its path"""
    if isinstance(s, list):
        for i, b in enumerate(s):
            yield from dict_positions(b, path + (i,))
    elif isinstance(s, dict):
        yield path, s
        for key in ("items", "values", "type"):
            if key in s and isinstance(s[key], (dict, list)):
                yield from dict_positions(s[key], path + (key,))
        for i, f in enumerate(s.get("fields", []) if isinstance(s.get("fields"), list) else []):
            yield from dict_positions(f, path + ("fields", i))


def _at(s, path):
    for p in path:
        s = s[p]
    return s


def edit(schema, pos, kind):
    """apply cosmetic edit `kind` at the pos-th dict position; None if it does not apply there"""
    ps = list(dict_positions(schema))
    if not (0 <= pos < len(ps)):
        return None
    s = copy.deepcopy(schema)
    node = _at(s, ps[pos][0]) if ps[pos][0] else s
    is_field = "type" in node and "name" in node and (len(ps[pos][0]) >= 2 and ps[pos][0][-2] == "fields")
    t = node.get("type")
    named = (not is_field) and t in ("record", "enum", "fixed", "error")
    if kind == 0:
        node["doc"] = "documentation text"
    elif kind == 1:
        if not (named or is_field):
            return None
        node["aliases"] = ["OldName"]
    elif kind == 2:
        if not is_field or "default" in node:
            return None
        ft = node["type"]
        if ft in ("int", "long"):
            node["default"] = 0
        elif ft == "string":
            node["default"] = ""
        elif isinstance(ft, list) and ft and ft[0] == "null":
            node["default"] = None
        else:
            return None
    elif kind == 3:
        if not is_field:
            return None
        node["order"] = "descending"
    elif kind == 4:
        node["x-custom"] = {"a": [1, 2]}
    elif kind == 5:
        if is_field or t not in ("long", "int", "bytes", "string"):
            return None
        node["logicalType"] = {"long": "timestamp-millis", "int": "date", "bytes": "decimal", "string": "uuid"}[t]
        if t == "bytes":
            node["precision"] = 4
    elif kind == 6:
        items = list(node.items())[::-1]
        node.clear()
        node.update(items)
    elif kind == 7:
        if not named:
            return None
        if "." in node["name"]:
            nsp, simple = node["name"].rsplit(".", 1)
            node["name"], node["namespace"] = simple, nsp
        elif node.get("namespace"):
            node["name"] = node["namespace"] + "." + node["name"]
            del node["namespace"]
        else:
            return None
    else:
        return None
    return s


def ob_spec_text(name):
    """(1) text == the specification's transformation; (3) fixed point; parses back to the same form"""
    sch = _schema(name)
    names = {}
    node = IR.to_ir(sch, "", names)
    want = PCF.pcf(node)
    try:
        got = S.to_parsing_canonical_form(copy.deepcopy(sch))
    except Exception as e:
        return False, f"to_parsing_canonical_form raised {type(e).__name__}: {e} on {name}"
    if got != want:
        return False, f"{name}: canonical form {got!r}, the specification's rules give {want!r}"
    # Fixed point.  The specification's own rules ([FULLNAMES]: drop namespace attributes) lose the distinction
    # for a type with the null namespace nested inside a namespaced type, so for such schemas the rule-following
    # text cannot be a fixed point for any implementation; the fixed-point obligation is asserted only where the
    # specification's text denotes the same names when read back.
    n2 = {}
    try:
        IR.to_ir(json.loads(want), "", n2)
    except Exception:
        n2 = None
    if n2 is None or sorted(n2) != sorted(names):
        return True, "canonical text equals the rules; fixed point not asserted (null namespace nested in a namespace)"
    try:
        again = S.to_parsing_canonical_form(json.loads(got))
    except Exception as e:
        return False, f"{name}: the canonical form is not a valid schema: {type(e).__name__}: {e}"
    if again != got:
        return False, f"{name}: not a fixed point: {again!r} vs {got!r}"
    return True, ""


def _schema(name):
    for n, t, s in family.family():
        if n == name:
            return s
    raise KeyError(name)


def ob_cosmetic(C, p1, k1, p2, k2):
    """(2) one or two cosmetic edits at symbolic positions leave the canonical form unchanged"""
    sch = C["schema"]
    e1 = edit(sch, p1, k1)
    if e1 is None:
        return True, "out of domain"
    e2 = e1 if k2 == 99 else edit(e1, p2, k2)
    if e2 is None:
        return True, "out of domain"
    try:
        got = S.to_parsing_canonical_form(e2)
    except Exception as e:
        return False, f"edited schema rejected: {type(e).__name__}: {e}; edits ({p1},{k1}),({p2},{k2}) on {C['name']}"
    if got != C["pcf"]:
        return False, f"canonical form changed under cosmetic edits ({p1},{k1}),({p2},{k2}) of {C['name']}: {got!r} vs {C['pcf']!r}"
    return True, ""


def ob_same_encoding(C, v):
    """(4) data written under the schema and under its canonical form (as a schema) are encoded identically"""
    try:
        d = shape.build(C["ir"], C["names"], v, C["cfg"])
    except OutOfDomain:
        return True, "out of domain"
    if not _all_present(C["ir"], d, C["names"]):
        return True, "out of domain (the canonical form drops defaults: 'defaults aside')"
    a, b = rt.new_io(), rt.new_io()
    try:
        W.schemaless_writer(a, C["parsed"], d)
        W.schemaless_writer(b, C["pcf_parsed"], d)
    except Exception as e:
        return False, f"{type(e).__name__}: {e} for {d!r} under {C['name']} / its canonical form"
    if rt.content(a) != rt.content(b):
        return False, f"encodings differ for {d!r}: {rt.content(a)!r} vs {rt.content(b)!r}"
    return True, ""


def _all_present(node, d, names):
    n = IR.deref(node, names)
    k = n["k"]
    if k == "record":
        for f in n["fields"]:
            if f["name"] not in d:
                return False
            if not _all_present(f["t"], d[f["name"]], names):
                return False
        return True
    if k == "array":
        return all(_all_present(n["items"], x, names) for x in d)
    if k == "map":
        return all(_all_present(n["values"], x, names) for x in d.values())
    if k == "union":
        try:
            i, val = codec.choose_branch(n, d, names)
        except (codec.SpecError, codec.Silent):
            return False
        return _all_present(n["branches"][i], val, names)
    return True


_C = {}


def case(name, thorough=False):
    if (name, thorough) in _C:
        return _C[(name, thorough)]
    c = dict(l2.case(name, thorough))
    c["pcf"] = S.to_parsing_canonical_form(copy.deepcopy(c["schema"]))
    c["pcf_parsed"] = S.parse_schema(json.loads(c["pcf"]))
    c["npos"] = len(list(dict_positions(c["schema"])))
    _C[(name, thorough)] = c
    return c


def ob_names_pcf(i0, i1, i2, i3, i4, i5, form):
    """canonical form of the pooled-name templates of C11 equals the specification's text"""
    n0, s0 = l11.pick(l11.NAME_POOL, i0), l11.pick(l11.NS_POOL, i1)
    n1, s1 = l11.pick(["B", "p.B", "u.v.B"], i2), l11.pick(l11.NS_POOL, i3)
    n2, s2 = l11.pick(["C", "s.C", "p.q.C"], i4), l11.pick(l11.NS_POOL, i5)
    if None in (n0, s0, n1, s1, n2, s2):
        return True, "out of domain"
    leaf = l11.named("enum", n2, s2, symbols=["X", "Y"]) if form != 1 else l11.named("fixed", n2, s2, size=2)
    inner = l11.named("record", n1, s1, fields=[{"name": "leaf", "type": leaf}], doc="d", aliases=["Z"])
    container = {"type": "array", "items": inner} if form == 2 else inner
    outer = l11.named("record", n0, s0, fields=[{"name": "a", "type": container, "default": None, "order": "ignore"}])
    names = {}
    try:
        node = IR.to_ir(outer, "", names)
    except IR.SchemaError:
        return True, "out of domain"
    want = PCF.pcf(node)
    try:
        got = S.to_parsing_canonical_form(outer)
    except Exception as e:
        from vf.oracles import schemaspec
        if schemaspec.verdict(outer)[0] != "ok":
            return True, "out of domain"
        return False, f"raised {type(e).__name__}: {e} on {outer!r}"
    if got != want:
        return False, f"canonical form {got!r}, the rules give {want!r} for {outer!r}"
    return True, ""


def hash_of(name):
    import zlib
    return zlib.crc32(name.encode())


def harnesses(tier, seed):
    from vf.ch import Harness
    th = tier == "thorough"
    hs = []
    for name in (SCHEMAS if th else QUICK):
        c = case(name, th)
        setup = f"C = case({name!r}, {th})"
        if th:
            call = "ob_cosmetic(C, p1, k1, p2, k2)"
            hs.append(Harness(f"cosmetic.{name}", "props.l13", "p1: int, k1: int, p2: int, k2: int", call + "[0]", replay_call=call,
                              setup=setup, what=f"cosmetic edits of {name}", samples=[(0, 0, 0, 99), (0, 6, 0, 4), (1, 1, 0, 7)],
                              key=lambda a, k, n=name: f"cosmetic:{n}:{a}"))
        else:
            # quick: one edit at a symbolic position and of symbolic kind, followed by a fixed second edit
            k2 = (99, 6, 4, 0)[(hash_of(name) + seed) % 4]
            call = f"ob_cosmetic(C, p1, k1, 0, {k2})"
            hs.append(Harness(f"cosmetic.{name}", "props.l13", "p1: int, k1: int", call + "[0]", replay_call=call,
                              setup=setup, what=f"cosmetic edits of {name}", samples=[(0, 0), (0, 6), (1, 1)],
                              key=lambda a, k, n=name: f"cosmetic:{n}:{a}"))
        a = shape.ann(c["ir"], c["names"], c["cfg"])
        call = "ob_same_encoding(C, v)"
        hs.append(Harness(f"same_encoding.{name}", "props.l13", f"v: {a}", call + "[0]", replay_call=call, setup=setup,
                          what=f"encoding under {name} vs under its canonical form",
                          samples=[(v,) for v in shape.samples(c["ir"], c["names"], c["cfg"], seed + 13, n=2)]))
    for form in range(3):
        call = f"ob_names_pcf(i0, i1, i2, i3, i4, i5, {form})"
        if not th:
            call = f"ob_names_pcf(i0, i1, i2, i3, {form}, {(form + seed) % 4}, {form})"
        hs.append(Harness(f"names_pcf.form{form}", "props.l13",
                          "i0: int, i1: int, i2: int, i3: int" + (", i4: int, i5: int" if th else ""),
                          call + "[0]", replay_call=call, what="canonical form of pooled-name templates",
                          samples=[(0, 0, 0, 0) + ((0, 0) if th else ()), (2, 3, 1, 2) + ((2, 1) if th else ())],
                          timeout=400 if th else None))
    return hs
