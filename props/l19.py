"""C19: load_schema from per-type files is equivalent to parsing the same types inlined at first use."""
import copy
import io
import json

from vf import rt

import fastavro._schema_py as S
import fastavro.repository.flat_dict as FD
from fastavro._schema_common import UnknownType
from fastavro.repository.base import SchemaRepositoryError

# concrete-argument helpers run natively (outside CrossHair's tracer): JSON decoding of the (concrete) file
# text inside the repository class, and the oracle side (parse / canonical form of the inlined schema)
_json_load_native = rt.untraced(json.load)
_dumps_native = rt.untraced(json.dumps)
_parse_native = rt.untraced(S.parse_schema)
_pcf_native = rt.untraced(S.to_parsing_canonical_form)


class _J:
    load = staticmethod(_json_load_native)
    decoder = json.decoder


DIR = "/nonexistent/repo"
KINDS = ["field", "array", "map", "union", "array of union", "map of array"]


class OutOfDomainGraph(Exception):
    pass


class _FakePath:
    """os.path as seen by the repository module: exists() answers from the in-memory table"""

    def __init__(self, fs):
        self._fs = fs

    def exists(self, p):
        return p in self._fs.files

    isfile = exists

    def __getattr__(self, k):
        import os.path
        return getattr(os.path, k)


class FakeFS:
    def __init__(self, files):
        self.files = files
        self.opened = []

    def open(self, path, *a, **k):
        self.opened.append(path)
        if path not in self.files:
            raise FileNotFoundError(2, "No such file or directory", path)
        return io.StringIO(self.files[path])


def _spell_impl(d):
    """dotted spelling: the full name in "name", no "namespace" attribute"""
    d = dict(d)
    nsp = d.pop("namespace")
    d["name"] = (nsp + "." + d["name"]) if nsp else d["name"]
    return d


_spell_native = rt.untraced(_spell_impl)


def _spell(d, dotted):
    if dotted:
        return _spell_native(d)
    return d


def build(n, edges, kinds, rel, other_ns, leafkind, same=False, dotted=(), nullns=False):
    """n types T0..T(n-1); edges: dict (i, j) -> bool for i < j (Ti refers to Tj); kinds[(i, j)] in 0..3;
    rel[(i, j)]: namespace-relative spelling (only where the namespaces agree); other_ns[j]: Tj lives in namespace 'o'
    returns (defs: list of raw definitions (each refers to the others by name), full names)"""
    base = "" if nullns else "m"  # the first namespace: "m", or the null namespace
    ns = [base if not (other_ns[j] if j < len(other_ns) else False) else "o" for j in range(n)]
    ns[0] = base
    simple = [f"T{j}" for j in range(n)]
    if same and n >= 3 and ns[1] != ns[2]:
        simple[1] = simple[2] = "X"  # two types with one simple name in different namespaces
    full = [f"{ns[j]}.{simple[j]}" if ns[j] else simple[j] for j in range(n)]
    defs = []
    for i in range(n):
        outs = [j for j in range(i + 1, n) if edges.get((i, j))]
        if not outs and i > 0 and leafkind == 1:
            defs.append({"type": "enum", "name": simple[i], "namespace": ns[i], "symbols": ["A", "B"]})
            continue
        if not outs and i > 0 and leafkind == 2:
            defs.append({"type": "fixed", "name": simple[i], "namespace": ns[i], "size": 2})
            continue
        fields = [{"name": "id", "type": "int"}]
        if any(ns[i] and not ns[j] for j in outs):
            raise OutOfDomainGraph()  # a type in the null namespace cannot be named from inside a namespace
        for j in outs:
            spelled = simple[j] if (rel.get((i, j)) and ns[i] == ns[j]) else full[j]
            k = kinds.get((i, j), 0)
            if k == 0:
                t = spelled
            elif k == 1:
                t = {"type": "array", "items": spelled}
            elif k == 2:
                t = {"type": "map", "values": spelled}
            elif k == 3:
                t = ["null", spelled]
            elif k == 4:
                t = {"type": "array", "items": ["null", spelled]}  # first use two container levels deep
            else:
                t = {"type": "map", "values": {"type": "array", "items": spelled}}
            fields.append({"name": f"r{j}", "type": t})
            if i == 0 and j == n - 1:
                # the same type used a second time from the same file (repeated use)
                fields.append({"name": f"again{j}", "type": ["null", full[j]]})
        defs.append({"type": "record", "name": simple[i], "namespace": ns[i], "fields": fields})
    defs = [_spell(d, bool(dotted[i]) if i < len(dotted) else False) for i, d in enumerate(defs)]
    return defs, full


def inline(defs, full, i, done):
    """definition of Ti with every first use of another type replaced by its (recursively inlined) definition"""
    d = copy.deepcopy(defs[i])
    done.add(full[i])
    ns = d["namespace"] if "namespace" in d else d["name"].rsplit(".", 1)[0]

    def res(t):
        if isinstance(t, list):
            return [res(b) for b in t]
        if isinstance(t, dict):
            t = dict(t)
            if t.get("type") == "array":
                t["items"] = res(t["items"])
            elif t.get("type") == "map":
                t["values"] = res(t["values"])
            return t
        if isinstance(t, str):
            q = t if ("." in t or not ns) else (ns + "." + t)
            if q in full:
                if q in done:
                    return q
                return inline(defs, full, full.index(q), done)
        return t

    if d["type"] == "record":
        d["fields"] = [dict(f, type=res(f["type"])) for f in d["fields"]]
    return d


def reachable(n, edges):
    seen, todo = {0}, [0]
    while todo:
        i = todo.pop()
        for j in range(i + 1, n):
            if edges.get((i, j)) and j not in seen:
                seen.add(j)
                todo.append(j)
    return sorted(seen)


def strip(s):
    if isinstance(s, list):
        return [strip(x) for x in s]
    if isinstance(s, dict):
        return {k: strip(v) for k, v in s.items() if k not in ("__fastavro_parsed", "__named_schemas")}
    return s


def deps_first(n, edges, reach):
    order, seen = [], set()

    def visit(i):
        if i in seen:
            return
        seen.add(i)
        for j in range(i + 1, n):
            if edges.get((i, j)):
                visit(j)
        order.append(i)
    visit(0)
    return order


def ob_load(n, E, kinds_t, rel_t, ons_t, leafkind, missing, ordered, same=False, dotted=(), kmax=6, nullns=False):
    """E: tuple of (i, j) edges that exist (fixed per harness); kinds_t/rel_t: per edge; ons_t: per type;
    missing: -1 or the index into the reachable types (other than T0) whose file is removed"""
    edges = {e: True for e in E}
    kinds, rel = {}, {}
    for idx, e in enumerate(E):
        k = kinds_t[idx]
        if not (0 <= k < kmax):
            return True, "out of domain"
        kinds[e] = k
        rel[e] = rel_t[idx]
    if not (0 <= leafkind < 3):
        return True, "out of domain"
    try:
        defs, full = build(n, edges, kinds, rel, ons_t, leafkind, same, dotted, nullns)
    except OutOfDomainGraph:
        return True, "out of domain"
    reach = reachable(n, edges)
    files = {f"{DIR}/{full[i]}.avsc": _dumps_native(defs[i]) for i in range(n)}
    gone = None
    if missing >= 0:
        cand = [i for i in reach if i != 0]
        for idx, i in enumerate(cand):
            if missing == idx:
                gone = i
        if gone is None:
            return True, "out of domain"
        del files[f"{DIR}/{full[gone]}.avsc"]
    elif missing != -1:
        return True, "out of domain"
    fs = FakeFS(files)
    saved = FD.__dict__.get("open")
    saved_json = FD.json
    saved_path = FD.__dict__.get("path")
    FD.open = fs.open
    if saved_path is not None:
        FD.path = _FakePath(fs)
    if rt.tokmode():
        FD.json = _J
    try:
        try:
            if ordered:
                if gone is not None:
                    return True, "out of domain"
                order = deps_first(n, edges, reach)
                got = S.load_schema_ordered([f"{DIR}/{full[i]}.avsc" for i in order])
            else:
                got = S.load_schema(f"{DIR}/{full[0]}.avsc")
            err = None
        except (UnknownType, SchemaRepositoryError) as e:
            got, err = None, e
        except Exception as e:
            return False, f"{type(e).__name__}: {e} for defs {defs!r}"
    finally:
        FD.json = saved_json
        if saved_path is not None:
            FD.path = saved_path
        if saved is None:
            del FD.open
        else:
            FD.open = saved
    tag = lambda: f"defs {defs!r}" + (f" without {full[gone]}" if gone is not None else "") + (" (ordered)" if ordered else "")
    if gone is not None:
        if err is None:
            return False, f"loading succeeded although {full[gone]}.avsc is missing; {tag()}"
        if full[gone] not in str(err) and getattr(err, "name", None) != full[gone]:
            return False, f"the error {type(err).__name__}: {err} does not name the missing type {full[gone]}; {tag()}"
        return True, ""
    if err is not None:
        return False, f"load failed with {type(err).__name__}: {err}; {tag()}"
    inl = inline(defs, full, 0, set())
    want = _parse_native(copy.deepcopy(inl))
    pcf_want = _pcf_native(copy.deepcopy(inl))
    if S.to_parsing_canonical_form(got) != pcf_want:
        return False, (f"canonical form {S.to_parsing_canonical_form(got)!r} differs from the inlined schema's "
                       f"{pcf_want!r}; {tag()}")
    if strip(got) != strip(want):
        return False, f"loaded schema {strip(got)!r} differs structurally from the parsed inlined schema {strip(want)!r}; {tag()}"
    return True, ""


def _extra_root(fa, fb):
    return {"type": "record", "name": "R9", "namespace": "m", "fields": [
        {"name": "x", "type": fa}, {"name": "ys", "type": {"type": "array", "items": fb}}]}


_extra_root_native = rt.untraced(_extra_root)


def ob_load_twice(n, E, kinds_t, rel_t, second):
    """two load_schema calls through ONE repository object: the second result equals what a fresh repository gives
    (a repository that keeps what it has read must not hand out objects an earlier load has edited)"""
    edges = {e: True for e in E}
    kinds, rel = {}, {}
    for idx, e in enumerate(E):
        k = kinds_t[idx]
        if not (0 <= k < 4):
            return True, "out of domain"
        kinds[e] = k
        rel[e] = rel_t[idx]
    # second: 0..n-1 -> the second load asks for T<second>; n + a*n + b -> a further root type that uses Ta directly and
    # then an array of Tb (a != b, both >= 1): a root that reaches shared types in another order than the first load did
    if not (0 <= second < n + n * n):
        return True, "out of domain"
    defs, full = build(n, edges, kinds, rel, (False,) * n, 0, False, ())
    root2 = None
    for i in range(n):
        if second == i:
            root2 = i
    if root2 is None:
        a = b = None
        for x in range(1, n):
            for y in range(1, n):
                if second == n + x * n + y and x != y:
                    a, b = x, y
        if a is None:
            return True, "out of domain"
        defs = defs + [_extra_root_native(full[a], full[b])]
        full = full + ["m.R9"]
        root2 = n
    files = {f"{DIR}/{full[i]}.avsc": _dumps_native(defs[i]) for i in range(len(defs))}
    saved = FD.__dict__.get("open")
    saved_json = FD.json
    if rt.tokmode():
        FD.json = _J
    try:
        def fresh(i):
            FD.open = FakeFS(dict(files)).open
            return S.load_schema(f"{DIR}/{full[i]}.avsc")
        try:
            want = fresh(root2)
            FD.open = FakeFS(dict(files)).open
            repo = FD.FlatDictRepository(DIR)
            S.load_schema(full[0], repo=repo)  # with a repository object the argument is the schema's name
            got = S.load_schema(full[root2], repo=repo)
        except Exception as e:
            return False, f"{type(e).__name__}: {e} loading {full[0]} then {full[root2]} through one repository; defs {defs!r}"
    finally:
        FD.json = saved_json
        if saved is None:
            FD.__dict__.pop("open", None)
        else:
            FD.open = saved
    if strip(got) != strip(want) or S.to_parsing_canonical_form(got) != S.to_parsing_canonical_form(want):
        return False, f"loading {full[root2]} after {full[0]} through one repository gives {strip(got)!r}, a fresh repository {strip(want)!r}"
    return True, ""


# a type used from two files that has a dependency of its own (quick tier: the two smallest such graphs on 4 types)
SHARED_WITH_DEP = [((0, 1), (0, 2), (1, 2), (2, 3)), ((0, 1), (0, 2), (1, 3), (2, 3)),
                   ((0, 1), (0, 2), (1, 3), (2, 3), (3, 4))]  # the last: a diamond whose shared type has a dependency


def edge_sets(n):
    pairs = [(i, j) for i in range(n) for j in range(i + 1, n)]
    out = []
    for mask in range(1 << len(pairs)):
        E = tuple(p for b, p in enumerate(pairs) if (mask >> b) & 1)
        # keep graphs where every type is reachable from T0 (others are irrelevant files)
        edges = {e: True for e in E}
        if len(reachable(n, edges)) == n:
            out.append(E)
    return out


def harnesses(tier, seed):
    from vf.ch import Harness
    th = tier == "thorough"
    hs = []
    for n in ((3, 4) if th else (3,)):
        sets = edge_sets(n)
        if n == 4 and not th:
            continue
        for E in sets:
            ne = len(E)
            kt = "Tuple[" + ", ".join(["int"] * ne) + "]" if ne > 1 else "int"
            rt_ = "Tuple[" + ", ".join(["bool"] * ne) + "]" if ne > 1 else "bool"
            ot = "Tuple[" + ", ".join(["bool"] * n) + "]"
            wrapk = "kinds" if ne > 1 else "(kinds,)"
            wrapr = "rel" if ne > 1 else "(rel,)"
            name = "n%d.E%s" % (n, "_".join(f"{i}{j}" for i, j in E))
            one = (0,) * ne if ne > 1 else 0
            two = tuple((i + 1) % 4 for i in range(ne)) if ne > 1 else 3
            fr = (False,) * ne if ne > 1 else False
            tr = (True,) * ne if ne > 1 else True
            F_ne, F_n = (False,) * ne, (False,) * n
            K0 = tuple((i + seed) % 4 for i in range(ne))
            variants = [
                # (suffix, call, params, samples)
                ("positions", f"ob_load({n}, {E!r}, {wrapk}, {F_ne!r}, {F_n!r}, 0, -1, ordered, kmax=4)",
                 f"kinds: {kt}, ordered: bool", [(one, False), (two, True)]),
                ("nested", f"ob_load({n}, {E!r}, tuple(4 + int(b) for b in {wrapr}), {F_ne!r}, {F_n!r}, 0, -1, ordered)",
                 f"rel: {rt_}, ordered: bool", [(fr, False), (tr, True)]),
                ("names", f"ob_load({n}, {E!r}, {K0!r}, {wrapr}, ons, 0, -1, {bool(seed & 1)}, same)",
                 f"rel: {rt_}, ons: {ot}, same: bool",
                 [(fr, (False,) * n, False), (tr, (False,) * (n - 1) + (True,), True), (tr, (False,) * n, False)]),
                ("leaves", f"ob_load({n}, {E!r}, {K0!r}, {tr if ne > 1 else (True,)!r}, ons, leafkind, -1, {not bool(seed & 1)}, False)",
                 f"ons: {ot}, leafkind: int", [((False,) * n, 0), ((False,) * (n - 1) + (True,), 1), ((False,) * n, 2)]),
                ("dotted", f"ob_load({n}, {E!r}, {K0!r}, {wrapr}, {F_n!r}, 0, -1, False, False, dotted)",
                 f"rel: {rt_}, dotted: {ot}", [(fr, (True,) * n), (tr, (True,) + (False,) * (n - 1)), (tr, (False,) * n)]),
                ("shortnames", f"ob_load({n}, {E!r}, {K0!r}, {F_ne!r}, ons, 0, missing, False, True, (), 6, nullns)",
                 f"ons: {ot}, missing: int, nullns: bool", [((False,) * n, -1, False), ((False, True, False) + (False,) * (n - 3), 0, True),
                                                            ((False, False, True) + (False,) * (n - 3), 1, True)]),
                ("missing", f"ob_load({n}, {E!r}, {wrapk}, {F_ne!r}, {F_n!r}, leafkind, missing, False, kmax=4)",
                 f"kinds: {kt}, leafkind: int, missing: int", [(one, 0, 0), (two, 1, 1)]),
            ]
            if th:
                variants.append(("all", f"ob_load({n}, {E!r}, {wrapk}, {wrapr}, ons, leafkind, missing, ordered, same, dotted)",
                                 f"kinds: {kt}, rel: {rt_}, ons: {ot}, leafkind: int, missing: int, ordered: bool, same: bool, dotted: {ot}",
                                 [(one, fr, (False,) * n, 0, -1, False, False, (False,) * n)]))
            if n == 3:
                variants.append(("twice", f"ob_load_twice({n}, {E!r}, tuple(int(b) for b in {wrapr}), {(True,) * ne!r}, second)",
                                 f"rel: {rt_}, second: int", [(fr, 1), (tr, 2), (tr, 3 + 1 * 3 + 2)]))
            for suffix, call, ps, samples in variants:
                hs.append(Harness(f"load.{name}.{suffix}", "props.l19", ps, call + "[0]", replay_call=call,
                                  what=f"load_schema over dependency graph {E} ({suffix})", samples=samples,
                                  key=f"load:{name}:{suffix}"))
    if not th:
        for E in SHARED_WITH_DEP:
            ne, n = len(E), max(j for _, j in E) + 1
            kt = "Tuple[" + ", ".join(["int"] * ne) + "]"
            rt_ = "Tuple[" + ", ".join(["bool"] * ne) + "]"
            name = "n%d.E%s" % (n, "_".join(f"{i}{j}" for i, j in E))
            call = f"ob_load({n}, {E!r}, tuple(int(b) for b in arr), {(False,) * ne!r}, {(False,) * n!r}, 0, -1, ordered)"
            hs.append(Harness(f"load.{name}.shared_dep", "props.l19", f"arr: {rt_}, ordered: bool", call + "[0]", replay_call=call,
                              what=f"load_schema over dependency graph {E} (shared type with its own dependency)",
                              samples=[((False,) * ne, False), ((True,) * ne, True)], key=f"load:{name}:shared_dep"))
    return hs
