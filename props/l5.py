"""C05: the container layout interoperates both ways with an independent implementation."""
import io
import json

from vf import rt, shape, tok
from vf.oracles import codec, container
from vf.shape import OutOfDomain
from . import l2, l4
from .l2 import _same
from .l4 import CODECS, MARKERS, case, _records

import fastavro._write_py as W
import fastavro._read_py as R

rt.fast_concrete_schema_handling()

SCHEMAS = l4.SCHEMAS
QUICK = ["rec_flat", "rec_empty", "prim_int", "union_prims", "pair_array_int", "rec_list", "prim_null", "enum"]


def _unwrap(codec_name, p):
    """token level: payload object -> block tokens"""
    if codec_name == "null":
        if isinstance(p, tok.TokBytes):
            return p.toks
        raise container.LayoutError("null codec payload is not raw data")
    if not isinstance(p, tok.Packed):
        raise container.LayoutError("compressed payload expected")
    want = {"deflate": ("zlib", (0, 2), (None, -1)), "bzip2": ("bz2", 0, None), "xz": ("lzma", 0, None)}[codec_name]
    if (p.codec, p.lo, p.hi) != want:
        raise container.LayoutError(f"payload framing {p.codec, p.lo, p.hi} is not the {codec_name} framing")
    return p.payload.toks


def ob_writer_layout(c, v, si, ci, mi):
    """(a) a file from the real Writer has exactly the specified layout: an independent parser
    recovers the records, the schema JSON, the codec name and one sync marker throughout"""
    try:
        recs = _records(c, v)
    except OutOfDomain:
        return True, "out of domain"
    if si < 1 or not (0 <= ci < 4) or not (0 <= mi < 2):
        return True, "out of domain"
    codec_name = l4.CODECS[0]
    for i, x in enumerate(CODECS):
        if ci == i:
            codec_name = x
    marker = MARKERS[1] if mi == 1 else MARKERS[0]
    fo = tok.TokIO() if rt.tokmode() else io.BytesIO()
    try:
        W.writer(fo, c["parsed"], recs, codec=codec_name, sync_interval=si, sync_marker=marker)
    except Exception as e:
        return False, f"writer raised {type(e).__name__}: {e}"
    try:
        if rt.tokmode():
            p = container.parse_tokens(fo.toks, _unwrap)
        else:
            p = container.parse_bytes(fo.getvalue())
        got = container.records_of(p, c["ir"], c["names"], rt.tokmode())
    except (container.LayoutError, codec.SpecError) as e:
        return False, f"independent parser rejects the file: {type(e).__name__}: {e}; records {recs!r} codec {codec_name}"
    want = [codec.normalise(c["ir"], d, c["names"], rt.f32) for d in recs]
    if not _same(got, want):
        return False, f"independent parser reads {got!r}, written {want!r}"
    if p["sync"] != marker:
        return False, "sync marker in the file is not the one supplied"
    if p["meta"].get("avro.codec") != codec_name.encode():
        return False, f"avro.codec is {p['meta'].get('avro.codec')!r}"
    try:
        sj = json.loads(p["meta"]["avro.schema"].decode())
    except Exception as e:
        return False, f"avro.schema is not JSON: {e}"
    if sj != c["schema"]:
        return False, f"avro.schema {sj!r} is not the schema supplied"
    if any(b["count"] <= 0 for b in p["blocks"]):
        return False, "a block with a non-positive record count was written"
    return True, ""


def _indep_file(c, recs, cuts, empties, chunks, negs, codec_present, codec_name, marker):
    """a layout-valid file from the independent writer; returns (stream, block counts, header_len, total_len)"""
    blocks, curb = [], []
    for i, r in enumerate(recs):
        if i > 0 and (cuts[i - 1] if i - 1 < len(cuts) else False):
            blocks.append(curb)
            curb = []
        curb.append(r)
    if curb:
        blocks.append(curb)
    # empty blocks before block i
    withempty = []
    for i, b in enumerate(blocks):
        if empties[i] if i < len(empties) else False:
            withempty.append([])
        withempty.append(b)
    if empties[len(blocks)] if len(blocks) < len(empties) else False:
        withempty.append([])
    blocks = withempty
    meta = [("avro.schema", json.dumps(c["schema"]).encode())]
    if codec_present:
        meta.append(("avro.codec", codec_name.encode()))
    meta.append(("user.k", b"v"))
    n = len(meta)
    c0, c1 = chunks
    if c0 == 9:
        c0, c1 = n, 0  # one chunk
    if not (0 <= c0 <= n and 0 <= c1 <= n - c0):
        raise OutOfDomain()
    sizes = [c0, c1, n - c0 - c1]
    head = container.header_tokens(meta, marker, sizes, negs, exact_sizes=not rt.tokmode())
    counts = [len(b) for b in blocks]
    if rt.tokmode():
        toks = list(head)
        for b in blocks:
            bt = []
            for r in b:
                codec.encode(c["ir"], r, c["names"], bt)
            payload = tok.TokBytes(bt)
            if codec_name == "deflate":
                payload = tok._Zlib.compress(payload)[2:-1]
            elif codec_name == "bzip2":
                payload = tok._Simple("bz2").compress(payload)
            elif codec_name == "xz":
                payload = tok._Simple("lzma").compress(payload)
            toks.append(("long", len(b)))
            toks.append(("long", len(payload)))
            if len(payload):
                toks.append(("raw", payload))
            toks.append(("raw", marker))
        fo = tok.TokIO()
        fo.toks = toks
        hl = 0
        for t in head:
            hl = hl + tok.tok_size(t)
        tl = 0
        for t in toks:
            tl = tl + tok.tok_size(t)
        return fo, counts, hl, tl
    data = bytearray(codec.to_bytes(head))
    hl = len(data)
    for b in blocks:
        bt = []
        for r in b:
            codec.encode(c["ir"], r, c["names"], bt)
        payload = container.compress(codec_name, codec.to_bytes(bt))
        data += codec.varint(len(b)) + codec.varint(len(payload)) + payload + marker
    return io.BytesIO(bytes(data)), counts, hl, len(data)


def ob_reader_accepts(c, v, cuts, empties, chunks, negs, codec_present, ci, use_blocks):
    """(b),(c) every layout-valid file from an independent writer is read back by reader / block_reader;
    blocks tile the file and their record counts sum up"""
    try:
        recs = _records(c, v)
    except OutOfDomain:
        return True, "out of domain"
    if not (0 <= ci < 4):
        return True, "out of domain"
    codec_name = CODECS[0]
    for i, x in enumerate(CODECS):
        if ci == i:
            codec_name = x
    if not codec_present:
        codec_name = "null"
    marker = MARKERS[0]
    try:
        fo, counts, hl, tl = _indep_file(c, recs, cuts, empties, chunks, negs, codec_present, codec_name, marker)
    except OutOfDomain:
        return True, "out of domain"
    want = [codec.normalise(c["ir"], d, c["names"], rt.f32) for d in recs]
    if not use_blocks:
        try:
            rd = R.reader(fo)
            got = list(rd)
        except Exception as e:
            return False, f"reader raised {type(e).__name__}: {e} on a layout-valid file (blocks {counts!r}, codec {codec_name})"
        if not _same(got, want):
            return False, f"reader returned {got!r}, file holds {want!r} (blocks {counts!r})"
        if rd.codec != codec_name:
            return False, f"codec reported as {rd.codec!r}, file says {codec_name!r} (present={codec_present})"
        return True, ""
    try:
        br = R.block_reader(fo)
        blocks = list(br)
        got = []
        for b in blocks:
            got.extend(list(b))
    except Exception as e:
        return False, f"block_reader raised {type(e).__name__}: {e} (blocks {counts!r}, codec {codec_name})"
    if not _same(got, want):
        return False, f"block_reader returned {got!r}, file holds {want!r} (blocks {counts!r})"
    if [b.num_records for b in blocks] != counts:
        return False, f"block record counts {[b.num_records for b in blocks]!r}, file has {counts!r}"
    pos = hl
    for b in blocks:
        if b.offset != pos:
            return False, f"block offsets are not contiguous: offset {b.offset}, expected {pos} (blocks {counts!r})"
        pos = pos + b.size
    if pos != tl:
        return False, f"blocks end at {pos}, file length {tl}"
    return True, ""


def ob_append_foreign(c, v, cuts, codec_present, ci, ai, si):
    """appending with the real Writer to a layout-valid file from an independent writer (codec key present or
    absent = null; the appending call asks for any codec): the result is still a layout-valid file of the ORIGINAL
    codec holding the old records followed by the new ones"""
    try:
        recs = _records(c, v)
    except OutOfDomain:
        return True, "out of domain"
    if not (0 <= ci < 4) or not (0 <= ai < 4) or si < 1 or not recs:
        return True, "out of domain"
    codec_name, asked = CODECS[0], CODECS[0]
    for i, x in enumerate(CODECS):
        if ci == i:
            codec_name = x
        if ai == i:
            asked = x
    if not codec_present:
        codec_name = "null"
    marker = MARKERS[0]
    old, new = recs[:1], recs[1:]
    try:
        fo, counts, hl, tl = _indep_file(c, old, cuts, (False, False, False), (9, 0), (False, False, False), codec_present,
                                         codec_name, marker)
    except OutOfDomain:
        return True, "out of domain"
    try:
        fo.seek(0, 2)
        w = W.Writer(fo, None, codec=asked, sync_interval=si)
        for r in new:
            w.write(r)
        w.flush()
    except Exception as e:
        return False, f"appending to a foreign file (codec {codec_name}, key present={codec_present}) with codec={asked} raised {type(e).__name__}: {e}"
    want = [codec.normalise(c["ir"], d, c["names"], rt.f32) for d in recs]
    try:
        if rt.tokmode():
            p = container.parse_tokens(fo.toks, _unwrap)
        else:
            p = container.parse_bytes(fo.getvalue())
        got = container.records_of(p, c["ir"], c["names"], rt.tokmode())
    except (container.LayoutError, codec.SpecError, UnicodeDecodeError, ValueError, IndexError, KeyError, EOFError) as e:
        return False, (f"after appending with codec={asked} to a foreign {codec_name} file (codec key present={codec_present}) an independent "
                       f"parser rejects the file: {type(e).__name__}: {e}")
    if not _same(got, want):
        return False, f"after appending, an independent parser reads {got!r}, expected {want!r}"
    fo.seek(0)
    try:
        got2 = list(R.reader(fo))
    except Exception as e:
        return False, f"after appending with codec={asked} to a foreign {codec_name} file the reader raises {type(e).__name__}: {e}"
    if not _same(got2, want):
        return False, f"after appending, the reader returns {got2!r}, expected {want!r}"
    return True, ""


def harnesses(tier, seed):
    from vf.ch import Harness
    import zlib
    th = tier == "thorough"
    hs = []
    for name in (SCHEMAS if th else QUICK):
        K = 3 if th else 2
        c = case(name, th, K)
        a = shape.ann(c["ir"], c["names"], c["cfg"])
        setup = f"C = case({name!r}, {th}, {K})"
        h = zlib.crc32(name.encode()) + seed
        if th:
            call = "ob_writer_layout(C, v, si, ci, mi)"
            ps = f"v: List[{a}], si: int, ci: int, mi: int"
        else:
            call = f"ob_writer_layout(C, v, si, {h & 3}, {(h >> 2) & 1})"
            ps = f"v: List[{a}], si: int"
        hs.append(Harness(f"layout.writer.{name}", "props.l5", ps, call + "[0]", replay_call=call, setup=setup,
                          what=f"layout of files written for {name}"))
        nb = "bool, bool, bool" if th else "bool, bool"
        for ub in (False, True):
            rn = 'block_reader' if ub else 'reader'
            # (i) block structure symbolic, header in one chunk
            cp, cix = bool(h & 8), (h >> 4) & 3
            call = f"ob_reader_accepts(C, v, cuts, empties, (9, 0), (False, False, False), {cp if not th else 'present'}, {cix if not th else 'ci'}, {ub})"
            ps = f"v: List[{a}], cuts: Tuple[{nb}], empties: Tuple[{nb}, bool]" + (", present: bool, ci: int" if th else "")
            hs.append(Harness(f"layout.{rn}.blocks.{name}", "props.l5", ps, call + "[0]", replay_call=call, setup=setup,
                              what=f"{rn} on independently written files of {name} (block structure)"))
        # (iii) append with the real Writer to an independently written file
        if th or name in ("rec_flat", "prim_int", "union_prims", "rec_empty"):
            call = "ob_append_foreign(C, v, (False, False), present, ci, ai, 1)"
            ps = f"v: List[{a}], present: bool, ci: int, ai: int"
            hs.append(Harness(f"layout.append_foreign.{name}", "props.l5", ps, call + "[0]", replay_call=call, setup=setup,
                              what=f"append to an independently written file of {name}"))
        # (ii) header chunking symbolic over a one-record file (once per schema, reader only)
        call = "ob_reader_accepts(C1, [], (False, False), (False, False, False), chunks, negs, present, ci, ub)"
        ps = "chunks: Tuple[int, int], negs: Tuple[bool, bool, bool], present: bool, ci: int, ub: bool"
        if th or (h >> 6) & 1:
            hs.append(Harness(f"layout.reader.header.{name}", "props.l5", ps, call + "[0]", replay_call=call,
                              setup=setup + f"\nC1 = case({name!r}, {th}, 1)",
                              what=f"reader on independently written headers of {name}"))
    return hs
