"""C11: parse_schema accepts valid schemas, names per the specification, rejects ill-formed ones (E2 part).
Names, namespaces and reference spellings are chosen by symbolic indices from pools covering every
case of the namespace rule; ill-forming mutations are chosen by symbolic kind and position."""
import copy

from vf import family
from vf.oracles import ir as IR, schemaspec

import fastavro._schema_py as S
from fastavro._schema_common import SchemaParseException, UnknownType

ABSENT = "<absent>"
NAME_POOL = ["A", "p.A", "p.q.A"]
NS_POOL = [ABSENT, "", "s", "s.t"]


def pick(pool, i):
    for j, x in enumerate(pool):
        if i == j:
            return x
    return None


def named(kind, name, ns, **kw):
    d = {"type": kind, "name": name}
    if ns != ABSENT:
        d["namespace"] = ns
    d.update(kw)
    return d


def cmp_parsed(p, n, names, path="$"):
    """parsed schema p vs oracle IR node n: every definition carries the oracle's full name, every
    reference is the oracle's full name of its target.  returns None or a message"""
    k = n["k"]
    if k == "ref":
        if p != n["name"]:
            return f"{path}: reference parsed as {p!r}, the rules give {n['name']!r}"
        return None
    if k in IR.PRIMS:
        pt = p["type"] if isinstance(p, dict) else p
        return None if pt == k else f"{path}: {p!r} is not {k}"
    if k == "union":
        if not isinstance(p, list) or len(p) != len(n["branches"]):
            return f"{path}: union shape"
        for i, (a, b) in enumerate(zip(p, n["branches"])):
            r = cmp_parsed(a, b, names, f"{path}[{i}]")
            if r:
                return r
        return None
    if not isinstance(p, dict):
        return f"{path}: {p!r} where a {k} definition is expected"
    if k == "array":
        return cmp_parsed(p["items"], n["items"], names, path + ".items")
    if k == "map":
        return cmp_parsed(p["values"], n["values"], names, path + ".values")
    if p.get("name") != n["name"]:
        return f"{path}: named type parsed with name {p.get('name')!r}, the rules give {n['name']!r}"
    if k == "record":
        if len(p["fields"]) != len(n["fields"]):
            return f"{path}: field count"
        for pf, nf in zip(p["fields"], n["fields"]):
            r = cmp_parsed(pf["type"], nf["t"], names, f"{path}.{nf['name']}")
            if r:
                return r
    return None


def judge(schema):
    """run parse_schema and compare with the oracle's verdict"""
    v, info = schemaspec.verdict(schema)
    if v == "silent":
        return True, "statement silent: " + info
    ns = {}
    try:
        parsed = S.parse_schema(copy.deepcopy(schema), ns)
    except (SchemaParseException, UnknownType) as e:
        if v == "bad":
            return True, ""
        return False, f"valid schema rejected with {type(e).__name__}: {e}; schema {schema!r}"
    except Exception as e:
        return False, f"{type(e).__name__} (neither schema-parse nor unknown-type error): {e}; schema {schema!r}"
    if v == "bad":
        return False, f"ill-formed schema accepted ({info}); schema {schema!r}"
    irn = {}
    node = IR.to_ir(schema, "", irn)
    r = cmp_parsed(parsed, node, irn)
    if r:
        return False, r + f"; schema {schema!r}"
    if sorted(ns) != sorted(irn):
        return False, f"named-schema table has {sorted(ns)!r}, the rules define {sorted(irn)!r}; schema {schema!r}"
    return True, ""


def ob_names(i0, i1, i2, i3, i4, i5, r1, r2, form):
    """three nested named types with pooled names/namespaces and two references with symbolic spelling"""
    n0, s0 = pick(NAME_POOL, i0), pick(NS_POOL, i1)
    n1, s1 = pick(["B", "p.B", "u.v.B"], i2), pick(NS_POOL, i3)
    n2, s2 = pick(["C", "s.C", "p.q.C"], i4), pick(NS_POOL, i5)
    if None in (n0, s0, n1, s1, n2, s2) or not (0 <= r1 < 3) or not (0 <= r2 < 3) or not (0 <= form < 3):
        return True, "out of domain"
    leaf = named("enum", n2, s2, symbols=["X", "Y"]) if form != 1 else named("fixed", n2, s2, size=2)
    # full names by the specification (independent)
    ns0, f0 = IR.fullname(n0, None if s0 == ABSENT else s0, "")
    ns1, f1 = IR.fullname(n1, None if s1 == ABSENT else s1, ns0)
    ns2, f2 = IR.fullname(n2, None if s2 == ABSENT else s2, ns1)

    def spell(full, r):
        if r == 0:
            return full
        if r == 1:
            return full.rsplit(".", 1)[-1]  # simple name: resolves only if the enclosing namespace fits
        return "Nope"

    inner = named("record", n1, s1, fields=[{"name": "leaf", "type": leaf},
                                            {"name": "again", "type": spell(f2, r1)}])
    container = {"type": "array", "items": inner} if form == 2 else inner
    outer = named("record", n0, s0, fields=[{"name": "a", "type": container},
                                            {"name": "b", "type": ["null", spell(f1, r2)]}])
    return judge(outer)


# ---- ill-forming mutations ------------------------------------------------------------------------

BASES = {
    "rec_enum_fixed": {"type": "record", "name": "R", "namespace": "m", "fields": [
        {"name": "e", "type": {"type": "enum", "name": "E", "symbols": ["A", "B", "C"], "default": "B"}},
        {"name": "f", "type": {"type": "fixed", "name": "F", "size": 4}},
        {"name": "again", "type": "E"},
        {"name": "n", "type": "int", "default": 3},
        {"name": "u", "type": ["null", {"type": "array", "items": "int"}], "default": None},
        {"name": "m", "type": {"type": "map", "values": "string"}, "default": {}},
    ]},
    "decimals": {"type": "record", "name": "D", "fields": [
        {"name": "b", "type": {"type": "bytes", "logicalType": "decimal", "precision": 5, "scale": 2}},
        {"name": "x", "type": {"type": "fixed", "name": "FX", "size": 2, "logicalType": "decimal", "precision": 4, "scale": 0}},
    ]},
    "defaults": {"type": "record", "name": "Df", "namespace": "shop", "fields": [
        {"name": "d1", "type": "double", "default": 1.5},
        {"name": "d2", "type": {"type": "double"}, "default": 2.5},
        {"name": "s", "type": "string", "default": "x"},
        {"name": "l", "type": {"type": "long"}, "default": 7},
        {"name": "r", "type": {"type": "record", "name": "Inner", "fields": [{"name": "k", "type": "int"}]}, "default": {"k": 1}},
        {"name": "un", "type": ["int", "string", "Inner"], "default": 5},
        {"name": "st", "type": {"type": "enum", "name": "State", "symbols": ["NEW", "OLD"]}, "default": "NEW"},
        {"name": "un2", "type": ["null", "State"], "default": None},
        {"name": "un3", "type": ["shop.State", "null", {"type": "map", "values": "Inner"}], "default": "OLD"},
    ]},
}

DEFAULT_VALUES = [None, True, 5, 2.5, "txt", [], {}, {"k": 1}]


def _set(s, path, key, value, delete=False):
    s = copy.deepcopy(s)
    cur = s
    for p in path:
        cur = cur[p]
    if delete:
        cur.pop(key, None)
    else:
        cur[key] = value
    return s


def mutants(base):
    """(label, schema) single mutations; labels say what was done, the oracle decides validity"""
    b = BASES[base]
    out = [("unchanged", b)]
    if base == "rec_enum_fixed":
        e = ["fields", 0, "type"]
        out += [
            ("enum-symbol-malformed", _set(b, e, "symbols", ["A", "9x", "C"])),
            ("enum-symbol-space", _set(b, e, "symbols", ["A", "B C"])),
            ("enum-symbol-nonstring", _set(b, e, "symbols", ["A", 5, "B"])),
            ("enum-symbol-duplicate", _set(b, e, "symbols", ["A", "B", "A"])),
            ("enum-default-outside", _set(b, e, "default", "Z")),
            ("enum-no-name", _set(b, e, "name", None, delete=True)),
            ("fixed-no-name", _set(b, ["fields", 1, "type"], "name", None, delete=True)),
            ("record-no-name", _set(b, [], "name", None, delete=True)),
            ("redefine-enum-as-fixed", _set(b, ["fields", 1, "type"], "name", "E")),
            ("redefine-record", _set(b, ["fields", 1, "type"], "name", "m.R")),
            ("reference-undefined", _set(b, ["fields", 2], "type", "Undefined")),
            ("reference-before-definition", _set(_set(b, ["fields", 0], "type", "E"), ["fields", 2], "type", b["fields"][0]["type"])),
            ("reference-other-namespace", _set(b, ["fields", 2], "type", "other.E")),
            ("reference-qualified", _set(b, ["fields", 2], "type", "m.E")),
        ]
    if base == "decimals":
        pb, pf = ["fields", 0, "type"], ["fields", 1, "type"]
        out += [
            ("precision-negative", _set(b, pb, "precision", -1)),
            ("precision-float", _set(b, pb, "precision", 2.5)),
            ("precision-string", _set(b, pb, "precision", "5")),
            ("scale-negative", _set(b, pb, "scale", -1)),
            ("scale-float", _set(b, pb, "scale", 1.5)),
            ("scale-above-precision", _set(b, pb, "scale", 6)),
            ("scale-equals-precision", _set(b, pb, "scale", 5)),
            ("fixed-precision-max", _set(b, pf, "precision", 4)),
            ("fixed-precision-too-large", _set(b, pf, "precision", 5)),
            ("fixed-size-1-precision-2", _set(_set(b, pf, "size", 1), pf, "precision", 2)),
            ("fixed-size-1-precision-3", _set(_set(b, pf, "size", 1), pf, "precision", 3)),
            ("fixed-size-8-precision-18", _set(_set(b, pf, "size", 8), pf, "precision", 18)),
            ("fixed-size-8-precision-19", _set(_set(b, pf, "size", 8), pf, "precision", 19)),
            ("fixed-scale-negative", _set(b, pf, "scale", -2)),
        ]
    return out


def ob_mutant(base, mi):
    ms = mutants(base)
    m = pick(ms, mi)
    if m is None:
        return True, "out of domain"
    ok, detail = judge(m[1])
    return ok, (f"[{m[0]}] " + detail) if not ok else detail


def ob_default(fi, di):
    """field fi of the 'defaults' base gets default DEFAULT_VALUES[di]: accepted iff its JSON type can match"""
    b = BASES["defaults"]
    if not (0 <= fi < len(b["fields"])):
        return True, "out of domain"
    d = pick(DEFAULT_VALUES, di)
    if d is None and di != 0:
        return True, "out of domain"
    fld = None
    for j in range(len(b["fields"])):
        if fi == j:
            fld = j
    s = _set(b, ["fields", fld], "default", copy.deepcopy(d))
    ok, detail = judge(s)
    return ok, (f"[field {b['fields'][fld]['name']} default {d!r}] " + detail) if not ok else detail


def ob_family(name):
    for n, tags, sch in family.family():
        if n == name:
            return judge(sch)
    raise KeyError(name)


def harnesses(tier, seed):
    from vf.ch import Harness
    hs = []
    # the 3-level template is explored two levels at a time (432 combinations per harness):
    #   A: outer and inner names/namespaces symbolic, leaf fixed, reference to the inner type symbolic
    #   B: outer fixed (with / without a namespace), inner and leaf symbolic, reference to the leaf symbolic
    for form in range(3):
        c2 = f"ob_names(i0, i1, i2, i3, 0, 0, 0, r2, {form})"
        hs.append(Harness(f"names.form{form}.outer_inner", "props.l11", "i0: int, i1: int, i2: int, i3: int, r2: int",
                          c2 + "[0]", replay_call=c2, what="namespace rules / reference resolution (outer, inner)",
                          samples=[(0, 0, 0, 0, 0), (1, 2, 1, 1, 1), (2, 3, 2, 2, 2)],
                          key=lambda a_, k, f=form: f"names:A{f}:" + ",".join(map(str, a_))))
        for o, (a, b) in enumerate(((0, 2), (1, 0))):
            c2 = f"ob_names({a}, {b}, i2, i3, i4, i5, r1, 0, {form})"
            hs.append(Harness(f"names.form{form}.inner_leaf.outer{o}", "props.l11", "i2: int, i3: int, i4: int, i5: int, r1: int",
                              c2 + "[0]", replay_call=c2, what="namespace rules / reference resolution (inner, leaf)",
                              samples=[(0, 0, 0, 0, 0), (1, 1, 1, 2, 1), (2, 3, 2, 3, 2)],
                              key=lambda a_, k, f=form, oo=o: f"names:B{f}{oo}:" + ",".join(map(str, a_))))
    for base in BASES:
        call = f"ob_mutant({base!r}, mi)"
        hs.append(Harness(f"mutants.{base}", "props.l11", "mi: int", call + "[0]", replay_call=call,
                          what=f"single ill-forming mutations of {base}", samples=[(0,), (1,), (5,)],
                          key=lambda a, k, b=base: f"mutant:{b}:{mutants(b)[a[0]][0]}"))
    call = "ob_default(fi, di)"
    hs.append(Harness("defaults", "props.l11", "fi: int, di: int", call + "[0]", replay_call=call,
                      what="field default JSON type vs field type", samples=[(0, 3), (1, 3), (5, 2)],
                      key=lambda a, k: f"default:{BASES['defaults']['fields'][a[0]]['name']}:{DEFAULT_VALUES[a[1]]!r}"))
    return hs
