"""C01 - binary round trip."""
from vf.e1 import E1Runner
from vf import ch
from . import prim, l2


def run(run, tier):
    r = E1Runner(run)
    prim.run_group(run, r, prim.RT_HARNESSES)
    l2.validate_standins(run, tier, run.seed, "rt")
    ch.run_harnesses(run, "C01", l2.harnesses(tier, run.seed, "rt"), timeout=120 if tier == "quick" else 400)
    l2.describe(run, tier)
