"""C01 - binary round trip."""
from vf.e1 import E1Runner
from . import prim


def run(run, tier):
    r = E1Runner(run)
    prim.run_group(run, r, prim.RT_HARNESSES)
