"""C04/C05: container files - round trip through the real Writer/reader over token streams
(CrossHair) or real bytes (replay), independent layout parser/writer."""
import io
import json

from vf import rt, family, shape, tok
from vf.oracles import ir as IR, codec
from vf.shape import OutOfDomain
from . import l2
from .l2 import _same

import fastavro._write_py as W
import fastavro._read_py as R
import fastavro._schema_py as S

rt.fast_concrete_schema_handling()

CODECS = ["null", "deflate", "bzip2", "xz"]
MARKERS = [b"0123456789abcdef", b"\x00" * 16]
SCHEMAS = ["rec_flat", "rec_empty", "prim_null", "prim_int", "prim_string", "union_prims", "pair_array_int",
           "pair_map_long", "enum", "fixed", "rec_defaults", "ref_after_def", "ns_inherit", "rec_list",
           "union_two_recs", "chain_rec_union_rec_arr", "pair_field_union", "rec_floats"]
QUICK = ["rec_flat", "rec_empty", "prim_null", "prim_int", "union_prims", "pair_array_int", "rec_list", "ns_inherit",
         "pair_field_union", "fixed"]


class RealSeqOut:
    """write-only, non-seekable, buffered output over real bytes: data are delivered on flush()"""

    def __init__(self):
        self._b = io.BytesIO()
        self._pending = []

    def write(self, data):
        self._pending.append(bytes(data))
        return len(data)

    def flush(self):
        for d in self._pending:
            self._b.write(d)
        self._pending = []

    def seekable(self):
        return False


class RealSeqIn:
    """read-only sequential input over real bytes"""

    def __init__(self, data):
        self._b = io.BytesIO(data)

    def read(self, n=-1):
        return self._b.read(n)


def seq_out():
    if rt.tokmode():
        t = tok.TokIO()
        return tok.SeqOut(t), t
    o = RealSeqOut()
    return o, o._b


def seq_in(store):
    if rt.tokmode():
        t = tok.TokIO()
        t.toks = list(store.toks)
        return tok.SeqIn(t)
    return RealSeqIn(store.getvalue())


def case(name, thorough=False, K=2):
    c = l2.case(name, thorough)
    cfg = c["cfg"].but(K=1, ints="small", strs="pool", floats="pool", bytes="pool", npool=3 if thorough else 2)
    lst = dict(k="array", items=c["ir"])
    return dict(c, cfg=cfg, lst=lst, lcfg=cfg.but(K=K), nrec=K, pcf=S.to_parsing_canonical_form(c["schema"]))


def _records(c, v):
    """v: list of shapes -> list of data (<= nrec records, each built with the per-record cfg)"""
    if len(v) > c["nrec"]:
        raise OutOfDomain()
    return [shape.build(c["ir"], c["names"], x, c["cfg"]) for x in v]


def ob_container_rt(c, v, si, ci, mi, given, parsed, mv):
    """C04: write with the real Writer to a write-only stream, read with the real reader from a
    read-only stream: same records in order, same canonical schema, codec and metadata reported."""
    try:
        recs = _records(c, v)
    except OutOfDomain:
        return True, "out of domain"
    if si < 1 or not (0 <= ci < len(CODECS)) or not (0 <= mi < len(MARKERS)) or not (0 <= mv <= len(shape.POOL)):
        return True, "out of domain"
    codec_name = CODECS[0]
    for i, x in enumerate(CODECS):
        if ci == i:
            codec_name = x
    marker = MARKERS[0]
    for i, x in enumerate(MARKERS):
        if mi == i:
            marker = x
    meta = "m"
    for i, x in enumerate(shape.POOL):
        if mv == i:
            meta = x
    out, store = seq_out()
    saved = W.urandom
    W.urandom = lambda n: marker if n == 16 else saved(n)
    user_meta = {"user.key": meta}
    if mv == len(shape.POOL):
        # metadata carried over from another file: it already holds the reserved keys, naming ANOTHER codec and schema;
        # the file written now must describe itself (the codec and schema actually used)
        user_meta = {"avro.codec": "bzip2" if codec_name != "bzip2" else "null", "user.key": meta, "avro.schema": '"string"'}
    try:
        sch = c["parsed"] if parsed else c["schema"]
        W.writer(out, sch, recs, codec=codec_name, sync_interval=si, metadata=user_meta,
                 sync_marker=marker if given else b"")
    except Exception as e:
        return False, f"writer raised {type(e).__name__}: {e} for {recs!r} codec={codec_name} si={si}"
    finally:
        W.urandom = saved
    try:
        rd = R.reader(seq_in(store))
        got = list(rd)
    except Exception as e:
        return False, f"reader raised {type(e).__name__}: {e} for {recs!r} codec={codec_name} si={si}"
    want = [codec.normalise(c["ir"], d, c["names"], rt.f32) for d in recs]
    def tag():  # formatted only on failure (formatting a symbolic value makes CrossHair enumerate it)
        return f"records={recs!r} codec={codec_name} sync_interval={si}"
    if not _same(got, want):
        return False, f"read {got!r}, wrote {want!r} ({tag()})"
    if rd.codec != codec_name:
        return False, f"codec reported {rd.codec!r} ({tag()})"
    if rd.metadata.get("user.key") != meta:
        return False, f"metadata reported {rd.metadata!r}, supplied user.key={meta!r} ({tag()})"
    if S.to_parsing_canonical_form(rd.writer_schema) != c["pcf"]:
        return False, f"writer_schema has a different canonical form ({tag()})"
    return True, ""


def params(c):
    a = shape.ann(c["ir"], c["names"], c["cfg"])
    return f"v: List[{a}], si: int, ci: int, mi: int, given: bool, parsed: bool, mv: int"


def harnesses(tier, seed):
    from vf.ch import Harness
    import zlib
    th = tier == "thorough"
    hs = []
    for name in (SCHEMAS if th else QUICK):
        K = 3 if th else 2
        c = case(name, th, K)
        a = shape.ann(c["ir"], c["names"], c["cfg"])
        setup = f"C = case({name!r}, {th}, {K})"
        if th:
            call = "ob_container_rt(C, v, si, ci, mi, given, parsed, mv)"
            ps = params(c)
        else:
            h = zlib.crc32(name.encode()) + seed
            call = f"ob_container_rt(C, v, si, {(h >> 5) & 3}, {h & 1}, {bool(h & 2)}, {bool(h & 4)}, {(h >> 3) & 1})"
            ps = f"v: List[{a}], si: int"
        hs.append(Harness(f"container.rt.{name}", "props.l4", ps, call + "[0]", replay_call=call, setup=setup,
                          what=f"container round trip of {name}"))
    if not th:
        # every codec, marker, metadata and schema form symbolic over a one-record file
        c = case("prim_int", th, 1)
        a = shape.ann(c["ir"], c["names"], c["cfg"])
        call = "ob_container_rt(C, v, si, ci, mi, given, parsed, mv)"
        hs.append(Harness("container.rt.all_options", "props.l4", params(c), call + "[0]", replay_call=call,
                          setup="C = case('prim_int', False, 1)", what="container options"))
    return hs


def validate_standins(run, tier, seed):
    """the same obligation on seeded samples through the real byte-level code and the real codecs
    must agree with the token-level run (validation traces; also exercises zlib/bz2/lzma)"""
    n = 0
    for name in (SCHEMAS if tier == "thorough" else QUICK):
        c = case(name, tier == "thorough", 2)
        samples = shape.samples(dict(k="array", items=c["ir"]), c["names"], c["cfg"].but(K=2), seed + 3, n=2)
        for v in samples:
            for ci in range(len(CODECS)):
                for si in (1, 9, 100000):
                    real = ob_container_rt(c, v, si, ci, 0, True, True, 0)
                    tok.install()
                    try:
                        t = ob_container_rt(c, v, si, ci, 1, False, False, 1)
                    finally:
                        tok.uninstall()
                    n += 1
                    if real[0] != t[0]:
                        run.internal_errors.append(f"container: token stand-ins disagree with real bytes on {name} {v!r} "
                                                   f"codec={CODECS[ci]} si={si}: real={real} tok={t}")
    run.validated += n
    run.sample(dict(kind="container validation traces", count=n))
    return n
