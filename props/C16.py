"""C16 - logical types use the specification's representation and round-trip over their whole domain.
E1 in arithmetic mode (z3 Int) on the real prepare_* / read_* converters, with datetime/Decimal objects
modelled by contract; decimals in bit-vector mode."""
import os
os.environ.setdefault("VF_WIDTH", "56")  # decimals here stay below 2^40; dates/times use z3 Int
import datetime as dt
import decimal
import time
import z3
import concurrent.futures as cf

from vf.e1 import E1Runner, Z, Unreplayable
from vf.symex import core, hooks, models, timemodels as tm
from vf.symex.core import WIDTH

LW = "fastavro._logical_writers_py"
LR = "fastavro._logical_readers_py"
WP = "fastavro._write_py"
EPOCH_ORD = 719163  # proleptic Gregorian ordinal of 1970-01-01 (the specification's epoch)
EPOCH_WALL = (EPOCH_ORD - 1) * tm.US_DAY
MAX_WALL = tm.MAXORD * tm.US_DAY

hooks.METHOD_MODELS.update(tm.METHOD_MODELS)


def iv(x):
    return z3.IntVal(x)


def zi(x):
    """z3 Int term of a Python int / SInt"""
    if isinstance(x, core.SInt):
        return x.e
    return z3.IntVal(int(x))


# ------------------------------------------------------------------------------------------------
# float-division lemmas:  int(x / c) == trunc(x / c)  for lo <= x <= hi
# ------------------------------------------------------------------------------------------------
LEMMA_SPECS = [  # (c, lo, hi, where used)
    (1000, 0, 999999, "int(microseconds / 1000) in prepare_timestamp_millis, prepare_time_millis"),
    (1000, 0, 86399999, "int(data / MLS_PER_SECOND) in read_time_millis"),
    (60000, 0, 86399999, "int(data / MLS_PER_MINUTE)"),
    (3600000, 0, 86399999, "int(data / MLS_PER_HOUR)"),
    (1000000, 0, 86399999999, "int(data / MCS_PER_SECOND) in read_time_micros"),
    (60000000, 0, 86399999999, "int(data / MCS_PER_MINUTE)"),
    (3600000000, 0, 86399999999, "int(data / MCS_PER_HOUR)"),
]


def lemma_error_model(c, lo, hi):
    """standard model of IEEE division (correctly rounded, relative error <= 2^-53, exact results exact):
    no double within that error of x/c truncates differently.  QF_LIA."""
    x, q, r = z3.Ints("x q r")
    s = z3.Solver()
    s.set("timeout", 120000)
    s.add(x >= lo, x <= hi, x == q * c + r, r >= 0, r < c)
    two53 = 2 ** 53
    s.add(z3.Or(z3.And(r != 0, r * two53 < x), (c - r) * two53 <= x))
    t = time.time()
    res = s.check()
    return str(res), time.time() - t


def _bvfp_chunk(args):
    c, lo, hi = args
    x = z3.BitVec("x", 64)
    fx = z3.fpSignedToFP(z3.RNE(), x, z3.Float64())
    quo = z3.fpDiv(z3.RNE(), fx, z3.FPVal(float(c), z3.Float64()))
    got = z3.fpToSBV(z3.RTZ(), quo, z3.BitVecSort(64))
    s = z3.Solver()
    s.set("timeout", 600000)
    s.add(x >= lo, x <= hi, got != x / z3.BitVecVal(c, 64))
    t = time.time()
    res = s.check()
    return str(res), time.time() - t


def lemma_bitprecise(c, lo, hi, chunks, pool):
    step = (hi - lo + chunks) // chunks
    jobs = [(c, a, min(hi, a + step - 1)) for a in range(lo, hi + 1, step)]
    res = list(pool.map(_bvfp_chunk, jobs))
    worst = "unsat"
    for r, t in res:
        if r != "unsat":
            worst = r
    return worst, sum(t for _, t in res), len(jobs)


def prove_lemmas(run, tier):
    tm.Ratio.LEMMAS.clear()
    ranges = {}
    plan = []
    with cf.ProcessPoolExecutor(max_workers=16) as pool:
        for c, lo, hi, where in LEMMA_SPECS:
            r, t = lemma_error_model(c, lo, hi)
            small = hi < 10**8
            futs = []
            if tier == "thorough" or small:
                chunks = 1 if hi < 10**6 + 1 else (8 if small else 64)
                step = (hi - lo + chunks) // chunks
                futs = [pool.submit(_bvfp_chunk, (c, a, min(hi, a + step - 1))) for a in range(lo, hi + 1, step)]
            plan.append((c, lo, hi, where, r, t, futs))
        for c, lo, hi, where, r, t, futs in plan:
            name = f"lemma.int_div_{c}.upto_{hi}"
            ok = r == "unsat"
            detail = f"error-model (QF_LIA) {r} in {t:.1f}s"
            t2 = 0.0
            if futs:
                res = [f.result() for f in futs]
                r2 = "unsat" if all(x[0] == "unsat" for x in res) else [x[0] for x in res if x[0] != "unsat"][0]
                t2 = sum(x[1] for x in res)
                detail += f"; bit-precise QF_BVFP {r2} in {len(futs)} range chunks, {t2:.1f}s solver time"
                ok = ok and r2 == "unsat"
            else:
                detail += " (bit-precise QF_BVFP proof: thorough tier)"
            run.obligation(name, "discharged" if ok else "inconclusive", detail + f" [{where}]", paths=1,
                           queries=1 + len(futs), solver_s=t + t2)
            if ok:
                lo0, hi0 = ranges.get(c, (lo, hi))
                ranges[c] = (min(lo0, lo), max(hi0, hi))
    tm.Ratio.LEMMAS.update(ranges)


# ------------------------------------------------------------------------------------------------
# float islands on demand: chains the exploration met for which no lemma was known
# ------------------------------------------------------------------------------------------------

def _island_chunk(args):
    """decide  forall lo <= x <= hi: island(x) == mode(x * num / den)  bit-precisely (QF_BVFP).
    Python's int/int division is the correctly rounded exact quotient: modelled by a binary128 division rounded to
    binary64 (no double rounding: a quotient x/c that is not a binary64 midpoint stays further than 2^-113 relative
    away from every midpoint as long as c < 2^50), or by a plain binary64 division when both operands are exact."""
    ops, mode, lo, hi, timeout_ms = args
    ops = tuple((o, k) for o, k in ops)
    RNE = z3.RNE()
    F64, F128 = z3.Float64(), z3.FPSort(15, 113)
    x = z3.BitVec("x", 64)
    wide = max(abs(lo), abs(hi)) >= 2**53
    f = None
    num, den = 1, 1
    for op, k in ops:
        ki = int(k)
        if op == "idiv":
            if wide or abs(ki) >= 2**53:
                f = z3.fpFPToFP(RNE, z3.fpDiv(RNE, z3.fpSignedToFP(RNE, x, F128), z3.FPVal(ki, F128)), F64)
            else:
                f = z3.fpDiv(RNE, z3.fpSignedToFP(RNE, x, F64), z3.FPVal(float(ki), F64))
            den *= ki
        elif op == "mul":
            f = z3.fpMul(RNE, f, z3.FPVal(float(k), F64))
            num *= ki
        else:
            f = z3.fpDiv(RNE, f, z3.FPVal(float(k), F64))
            den *= ki
    if den < 0:
        num, den = -num, -den
    W = 128
    rm = {"trunc": z3.RTZ(), "round": RNE, "floor": z3.RTN()}[mode]
    got = z3.fpToSBV(rm, f, z3.BitVecSort(W))
    t = z3.SignExt(W - 64, x) * z3.BitVecVal(num, W)
    d = z3.BitVecVal(den, W)
    qt, rt = z3.SDiv(t, d) if hasattr(z3, "SDiv") else t / d, z3.SRem(t, d)
    qf = z3.If(rt < 0, qt - 1, qt)
    rf = z3.If(rt < 0, rt + d, rt)
    if mode == "trunc":
        want = qt
    elif mode == "floor":
        want = qf
    else:
        up = z3.Or(2 * rf > d, z3.And(2 * rf == d, z3.Extract(0, 0, qf) == 1))
        want = z3.If(up, qf + 1, qf)
    s = z3.Solver()
    s.set("timeout", timeout_ms)
    s.add(x >= lo, x <= hi, got != want)
    t0 = time.time()
    res = s.check()
    x0 = s.model()[x].as_signed_long() if res == z3.sat else None
    return str(res), time.time() - t0, x0


def _exact_py(ops, mode, x0):
    from fractions import Fraction
    import math
    v = Fraction(x0)
    for op, k in ops:
        v = v * int(k) if op == "mul" else v / int(k)
    return {"trunc": math.trunc, "round": round, "floor": math.floor}[mode](v)


def prove_demands(run, tier, demands):
    """demands: [(ops, mode, lo, hi)] merged per (ops, mode)"""
    merged = {}
    for ops, mode, lo, hi in demands:
        k = (ops, mode)
        a, b = merged.get(k, (lo, hi))
        merged[k] = (min(a, lo), max(b, hi))
    tmo = 100000 if tier == "quick" else 900000
    with cf.ProcessPoolExecutor(max_workers=16) as pool:
        for (ops, mode), (lo, hi) in merged.items():
            chunks = 8 if hi - lo > 10**6 else 1
            step = (hi - lo + chunks) // chunks
            jobs = [(ops, mode, a, min(hi, a + step - 1), tmo) for a in range(lo, hi + 1, step)]
            res = list(pool.map(_island_chunk, jobs))
            name = "lemma.island." + "_".join(f"{o}{k}" for o, k in ops) + f".{mode}"
            st = sum(r[1] for r in res)
            cex = [r[2] for r in res if r[0] == "sat"]
            # a counterexample counts only if CPython's own floats agree that the island differs from exact arithmetic
            cex = [x0 for x0 in cex if tm.Ratio(None, None, ops).concrete(x0, mode) != _exact_py(ops, mode, x0)]
            if cex:
                tm.Ratio.REFUTED.setdefault((ops, mode), []).extend(cex[:2])
                run.obligation(name, "inconclusive", f"float chain {ops}->{mode} is NOT exact arithmetic on [{lo}, {hi}] (e.g. x={cex[0]}: "
                               f"{tm.Ratio(None, None, ops).concrete(cex[0], mode)} instead of {_exact_py(ops, mode, cex[0])}); the counterexample "
                               "instance is explored, other values are not covered", paths=1, queries=len(jobs), solver_s=st)
            elif all(r[0] == "unsat" for r in res):
                tm.Ratio.PROVEN.setdefault((ops, mode), []).append((lo, hi))
                run.obligation(name, "discharged", f"bit-precise QF_BVFP unsat on [{lo}, {hi}] in {len(jobs)} chunks, {st:.1f}s", paths=1,
                               queries=len(jobs), solver_s=st)
            else:
                tm.Ratio.REFUTED.setdefault((ops, mode), [])
                run.obligation(name, "inconclusive", f"float chain {ops}->{mode} on [{lo}, {hi}]: solver gave no answer within the budget",
                               paths=1, queries=len(jobs), solver_s=st)


def check_with_demands(r, run, tier, specs):
    import json
    from vf.report import ROOT
    from vf.ch import WORK
    d = os.path.join(WORK, "C16")
    os.makedirs(d, exist_ok=True)
    path = os.path.join(d, f"demands_{os.getpid()}.jsonl")
    os.environ["VF_DEMANDS"] = path
    todo = specs
    try:
        for it in range(3):
            open(path, "w").close()
            r.check_many(todo)
            dem = set()
            for line in open(path):
                j = json.loads(line)
                ops = tuple((o, k) for o, k in j["ops"])
                if (ops, j["mode"]) not in tm.Ratio.PROVEN and (ops, j["mode"]) not in tm.Ratio.REFUTED:
                    dem.add((ops, j["mode"], j["lo"], j["hi"]))
            if not dem or it == 2:
                break
            prove_demands(run, tier, sorted(dem))
            todo = [sp for sp in specs if any(run.obl.get(f"{sp['prefix']}.{e}", {}).get("status") == "inconclusive" for e in sp["expect"])]
            if not todo:
                break
    finally:
        os.environ.pop("VF_DEMANDS", None)
        try:
            os.remove(path)
        except OSError:
            pass


# ------------------------------------------------------------------------------------------------
# harnesses
# ------------------------------------------------------------------------------------------------

def _sym_int(m, name, lo, hi, small=None):
    return m.int(name, lo, hi, small=small, arith=True)


def h_date(m):
    o = _sym_int(m, "ordinal", 1, tm.MAXORD)
    d = tm.SDate(o) if m.sym else dt.date.fromordinal(o)
    stored = m.mod(LW).prepare_date(d, {})
    m.prove("date.stored", zi(stored) == zi(o) - EPOCH_ORD, "date not stored as days from 1970-01-01")
    back = m.mod(LR).read_date(stored)
    bo = back.ordinal if m.sym else back.toordinal()
    m.prove("date.roundtrip", zi(bo) == zi(o), "date does not come back unchanged")


def _mk_time(m):
    h = _sym_int(m, "h", 0, 23)
    mi = _sym_int(m, "mi", 0, 59)
    s = _sym_int(m, "s", 0, 59)
    us = _sym_int(m, "us", 0, 999999)
    t = tm.STime(h, mi, s, us) if m.sym else dt.time(h, mi, s, us)
    return t, h, mi, s, us


def _time_fields(m, t):
    return [zi(t.hour), zi(t.minute), zi(t.second), zi(t.microsecond)]


def h_time_millis(m):
    t, h, mi, s, us = _mk_time(m)
    stored = m.mod(LW).prepare_time_millis(t, {})
    want = ((zi(h) * 60 + zi(mi)) * 60 + zi(s)) * 1000 + m.floordiv(zi(us), 1000)
    m.prove("time_millis.stored", zi(stored) == want, "time-millis not stored as milliseconds after midnight")
    back = m.mod(LR).read_time_millis(stored)
    f = _time_fields(m, back)
    m.prove("time_millis.roundtrip", z3.And(f[0] == zi(h), f[1] == zi(mi), f[2] == zi(s), f[3] == m.floordiv(zi(us), 1000) * 1000),
            "time-millis does not come back truncated to the millisecond")


def h_time_micros(m):
    t, h, mi, s, us = _mk_time(m)
    stored = m.mod(LW).prepare_time_micros(t, {})
    want = ((zi(h) * 60 + zi(mi)) * 60 + zi(s)) * 1000000 + zi(us)
    m.prove("time_micros.stored", zi(stored) == want, "time-micros not stored as microseconds after midnight")
    back = m.mod(LR).read_time_micros(stored)
    f = _time_fields(m, back)
    m.prove("time_micros.roundtrip", z3.And(f[0] == zi(h), f[1] == zi(mi), f[2] == zi(s), f[3] == zi(us)),
            "time-micros does not come back unchanged")


def _mk_dt(m, aware):
    wall = _sym_int(m, "wall_us", 0, MAX_WALL - 1)
    if aware:
        # UTC offset: any number of microseconds strictly between -24h and +24h (datetime.timezone's full domain)
        offu = _sym_int(m, "offset_us", -(86400 * 10**6) + 1, 86400 * 10**6 - 1)
        if m.sym:
            return tm.SDatetime(wall, offu), wall, offu
        d = dt.datetime.min + dt.timedelta(microseconds=wall)
        return d.replace(tzinfo=dt.timezone(dt.timedelta(microseconds=offu))), wall, offu
    if m.sym:
        return tm.SDatetime(wall, None), wall, None
    return dt.datetime.min + dt.timedelta(microseconds=wall), wall, None


def _wall_of(m, d):
    """(wall microseconds since 0001-01-01, utc offset in microseconds or None) of a result datetime"""
    if m.sym:
        return zi(d.wall), (None if d.offset is None else zi(d.offset))
    w = (d.replace(tzinfo=None) - dt.datetime.min) // dt.timedelta(microseconds=1)
    off = None if d.tzinfo is None else d.utcoffset() // dt.timedelta(microseconds=1)
    return iv(w), (None if off is None else iv(off))


def _ts(m, unit, local, aware):
    """unit: 1000 (millis) or 1 (micros)"""
    nm = ("local_" if local else "") + ("timestamp_millis" if unit == 1000 else "timestamp_micros")
    ob = nm + (".aware" if aware else ".naive")
    d, wall, offm = _mk_dt(m, aware)
    rel = zi(wall) - EPOCH_WALL - (zi(offm) if aware else 0)  # microseconds from the (UTC) epoch
    # the UTC instant must itself be a representable datetime, else it cannot be returned
    m.assume(z3.And(rel + EPOCH_WALL >= 0, rel + EPOCH_WALL < MAX_WALL))
    prep = getattr(m.mod(LW), "prepare_" + nm)
    stored = prep(d, {})
    want = m.floordiv(rel, unit) if unit != 1 else rel  # truncation to the unit toward -infinity
    m.prove(ob + ".stored", zi(stored) == want, f"{nm} not stored as units from the epoch")
    back = getattr(m.mod(LR), "read_" + nm)(stored)
    bw, boff = _wall_of(m, back)
    exp_wall = EPOCH_WALL + want * unit
    if local:
        m.prove(ob + ".roundtrip", z3.And(bw == exp_wall, boff is None), f"{nm} does not come back (naive, truncated)")
    else:
        m.prove(ob + ".roundtrip", z3.And(bw == exp_wall, (boff == 0) if boff is not None else z3.BoolVal(False)),
                f"{nm} does not come back in UTC, truncated to the unit")


def h_ts_millis_aware(m):
    _ts(m, 1000, False, True)


def h_ts_micros_aware(m):
    _ts(m, 1, False, True)


def h_ts_millis_naive(m):
    _ts(m, 1000, False, False)


def h_ts_micros_naive(m):
    _ts(m, 1, False, False)


def h_local_millis(m):
    _ts(m, 1000, True, False)


def h_local_micros(m):
    _ts(m, 1, True, False)


def h_passthrough(m):
    """non-logical values (plain ints) pass through every prepare_* unchanged"""
    n = _sym_int(m, "n", -(1 << 63), (1 << 63) - 1)
    w = m.mod(LW)
    for f in ("prepare_timestamp_millis", "prepare_local_timestamp_millis", "prepare_timestamp_micros",
              "prepare_local_timestamp_micros", "prepare_date", "prepare_time_millis", "prepare_time_micros",
              "prepare_uuid", "prepare_bytes_decimal", "prepare_fixed_decimal"):
        r = getattr(w, f)(n, {"precision": 5, "scale": 0, "size": 4})
        m.prove("passthrough." + f, zi(r) == zi(n) if isinstance(r, (int, core.SInt)) else z3.BoolVal(False),
                f"{f} altered a plain integer")


def h_uuid(m):
    import uuid
    if m.sym:
        u = tm.SUUID("U")
    else:
        u = uuid.UUID(int=int(m.values.get("uuid_int", 0x1234567890abcdef1234567890abcdef)))
    s = m.mod(LW).prepare_uuid(u, {})
    if m.sym:
        m.prove("uuid.stored", isinstance(s, tm.SUUIDStr) and s.u is u, "uuid not stored as str(uuid)")
    else:
        m.prove("uuid.stored", s == str(u) and len(s) == 36, "uuid not stored in canonical text form")
    back = m.mod(LR).read_uuid(s)
    m.prove("uuid.roundtrip", (back is u) if m.sym else (back == u), "uuid does not come back")


# ---- decimals (bit-vector mode) ---------------------------------------------------------------------

DEC = dict(max_digits=3, max_exp=2, max_prec=3, max_size=2)


RT = dict(nd=2, prec=2)


def _mk_decimal(m):
    nd = m.choice("nd", 1, DEC["max_digits"])
    sign = m.int("sign", 0, 1)
    exp = m.int("exp", -DEC["max_exp"], DEC["max_exp"])
    digs = [m.int(f"d{i}", 0, 9) for i in range(nd)]
    if nd > 1:
        m.assume(Z(digs[0]) != 0)  # Decimal normal form: no leading zeros
    if m.sym:
        d = tm.SDecimalIn(sign, digs, exp)
    else:
        d = decimal.Decimal((sign, tuple(digs), exp))
    coeff = z3.BitVecVal(0, WIDTH)
    for x in digs:
        coeff = coeff * 10 + Z(x)
    return d, sign, digs, exp, coeff, nd


def _pow10(e, lo, hi):
    """10**e as an if-then-else table for lo <= e <= hi (e: z3 BV term)"""
    t = z3.BitVecVal(10 ** hi, WIDTH)
    for k in range(hi - 1, lo - 1, -1):
        t = z3.If(e == k, z3.BitVecVal(10 ** k, WIDTH), t)
    return t


def _signed_be(m, b):
    """value of a byte string as big-endian two's complement (independent decoding)"""
    bs = m.byte_terms(b)
    if not bs:
        return z3.BitVecVal(0, WIDTH), 0
    v = z3.BitVecVal(0, WIDTH)
    for x in bs:
        v = (v << 8) | x
    n = len(bs)
    neg = (bs[0] & 0x80) != 0
    v = z3.If(neg, v - z3.BitVecVal(1 << (8 * n), WIDTH), v)
    return v, n


def _decimal_common(m, fixed):
    """write side: the stored bytes denote exactly the decimal, or an exception is raised"""
    d, sign, digs, exp, coeff, nd = _mk_decimal(m)
    prec = m.int("precision", 1, DEC["max_prec"])
    scale = m.int("scale", 0, DEC["max_prec"])
    m.assume(Z(scale) <= Z(prec))
    schema = {"type": "fixed" if fixed else "bytes", "logicalType": "decimal", "precision": prec, "scale": scale}
    size = None
    if fixed:
        size = m.int("size", 1, DEC["max_size"])
        schema.update(name="FD", size=size)
    delta = Z(exp) + Z(scale)
    representable = z3.And(Z(prec) >= nd, delta >= 0)
    w = m.mod(LW)
    if m.sym:
        from vf.symex.models import SymOut
        w.BytesIO = SymOut
    kind = "fixed_decimal" if fixed else "bytes_decimal"

    def unscaled_now():
        # by now the code has fixed delta on this path (it computes 10**delta / pads digits)
        dc = (exp + scale)
        dc = core.concretize(dc) if m.sym else int(dc)
        mag = coeff * (10 ** dc) if dc >= 0 else None
        return None if mag is None else z3.If(Z(sign) != 0, -mag, mag)

    try:
        b = (w.prepare_fixed_decimal if fixed else w.prepare_bytes_decimal)(d, schema)
        if fixed:
            out = m.out()
            enc = m.mod("fastavro.io.binary_encoder").BinaryEncoder(out)
            m.mod(WP).write_fixed(enc, b, schema, {}, "", {})
    except Exception:
        if not fixed:
            m.prove(kind + ".error_only_when_unrepresentable", z3.Not(representable), "a representable decimal was refused")
            return
        if m.sym and core.cur().check(representable) == z3.unsat:
            m.prove(kind + ".error_only_when_unrepresentable", z3.Not(representable))
            return
        if not m.sym and not z3.is_true(z3.simplify(representable)):
            m.prove(kind + ".error_only_when_unrepresentable", True)
            return
        m.assume(representable)
        u = unscaled_now()
        m.prove(kind + ".error_only_when_unrepresentable", z3.Not(_fits(u, Z(size))),
                "a decimal that fits precision, scale and size was refused")
        return
    m.prove(kind + ".too_many_digits_or_fraction_raises", representable,
            "a decimal with more digits than the precision / more fractional digits than the scale was stored")
    m.assume(representable)
    unscaled = unscaled_now()
    val, n = _signed_be(m, b)
    m.prove(kind + ".never_stored_as_another_number", val == unscaled,
            "stored bytes denote a different number than the decimal")
    if fixed:
        m.prove(kind + ".exact_size", Z(size) == n, "fixed decimal not exactly the declared size")


def h_read_decimal(m):
    """read side: bytes denoting the unscaled integer u with at most `precision` digits read back as u * 10^-scale"""
    n = m.choice("n", 1, DEC["max_size"] + 1)
    bs = [m.byte(f"b{i}") for i in range(n)]
    prec = m.choice("precision", 1, DEC["max_prec"] + 2)
    scale = m.int("scale", 0, DEC["max_prec"] + 2)
    m.assume(Z(scale) <= prec)
    data = models.SBytes(bs) if m.sym else bytes(bs)
    u, _ = _signed_be(m, data)
    lim = 10 ** prec
    m.assume(z3.And(u < lim, u > -lim))
    r = m.mod(LR)
    if m.sym:
        r.decimal_context = tm.SContext()
        r.Context = tm.SContext
    schema = {"type": "bytes", "logicalType": "decimal", "precision": prec, "scale": scale}
    back = r.read_decimal(data, schema, None)
    if m.sym:
        m.prove("read_decimal.value", z3.And(Z(back.coeff) == u, Z(back.exp) == -Z(scale)) if not back.inexact
                else z3.BoolVal(False), "read_decimal does not return unscaled * 10^-scale")
    else:
        sc = int(scale)
        uu = int.from_bytes(bytes(bs), "big", signed=True)
        m.prove("read_decimal.value", back == decimal.Decimal(uu).scaleb(-sc), "read_decimal does not return unscaled * 10^-scale")


def h_decimal_roundtrip(m):
    """write then read on the real converters (small bounds; includes values whose unscaled integer has more
    digits than the precision through a positive exponent)"""
    d, sign, digs, exp, coeff, nd = _mk_decimal(m)
    m.assume(z3.And(Z(exp) >= -1, nd <= RT["nd"]))
    prec = m.choice("precision", 1, RT["prec"])
    scale = m.choice("scale", 0, prec)
    fixed = m.choice("fixed", 0, 1)
    schema = {"type": "fixed" if fixed else "bytes", "logicalType": "decimal", "precision": prec, "scale": scale}
    if fixed:
        schema.update(name="FD", size=m.choice("size", 1, 2))
    w = m.mod(LW)
    if m.sym:
        from vf.symex.models import SymOut
        w.BytesIO = SymOut
    try:
        b = (w.prepare_fixed_decimal if fixed else w.prepare_bytes_decimal)(d, schema)
        if fixed:
            m.mod(WP).write_fixed(m.mod("fastavro.io.binary_encoder").BinaryEncoder(m.out()), b, schema, {}, "", {})
    except Exception:
        m.note("roundtrip.refused")
        return
    r = m.mod(LR)
    if m.sym:
        r.decimal_context = tm.SContext()
        r.Context = tm.SContext
    back = r.read_decimal(b, schema, None)
    if m.sym:
        e_in = core.concretize(exp)
        k = core.concretize(back.exp) if isinstance(back.exp, core.SInt) else back.exp
        lo = min(e_in, k)
        lhs = Z(back.coeff) * (10 ** (k - lo))
        mag = coeff * (10 ** (e_in - lo))
        m.prove("decimal.roundtrip", lhs == z3.If(Z(sign) != 0, -mag, mag), "decimal does not come back equal")
    else:
        m.prove("decimal.roundtrip", back == d, "decimal does not come back equal")


def _fits(unscaled, size):
    """unscaled fits a two's-complement integer of `size` bytes (size: z3 term, 1..8)"""
    c = z3.BoolVal(False)
    for n in range(1, 9):
        lo, hi = -(1 << (8 * n - 1)), (1 << (8 * n - 1)) - 1
        c = z3.Or(c, z3.And(size == n, unscaled >= lo, unscaled <= hi))
    return c


def h_bytes_decimal(m):
    _decimal_common(m, False)


def h_fixed_decimal(m):
    _decimal_common(m, True)


def _dkey(name, vals):
    if "fixed_decimal" in name or "bytes_decimal" in name:
        sign = vals.get("sign")
        zero = all(vals.get(f"d{i}", 0) == 0 for i in range(8))
        return f"decimal:{name}:" + ("negative-zero" if sign and zero else ("negative" if sign else "positive"))
    return name


def run(run, tier):
    if tier == "thorough":
        DEC.update(max_digits=5, max_exp=4, max_prec=6, max_size=4)
        RT.update(nd=3, prec=3)
    prove_lemmas(run, tier)
    r = E1Runner(run)
    exp2 = lambda p: [p + ".stored", p + ".roundtrip"]
    S = lambda h, expect, **kw: dict(harness=h, prefix="e1", expect=expect, **kw)
    check_with_demands(r, run, tier, [
        S(h_date, exp2("date")), S(h_time_millis, exp2("time_millis")), S(h_time_micros, exp2("time_micros")),
        S(h_ts_millis_aware, exp2("timestamp_millis.aware")), S(h_ts_micros_aware, exp2("timestamp_micros.aware")),
        S(h_ts_millis_naive, exp2("timestamp_millis.naive")), S(h_ts_micros_naive, exp2("timestamp_micros.naive")),
        S(h_local_millis, exp2("local_timestamp_millis.naive")), S(h_local_micros, exp2("local_timestamp_micros.naive")),
        S(h_passthrough, ["passthrough.prepare_date"]), S(h_uuid, ["uuid.stored", "uuid.roundtrip"]),
        S(h_bytes_decimal, ["bytes_decimal.never_stored_as_another_number", "bytes_decimal.error_only_when_unrepresentable",
                            "bytes_decimal.too_many_digits_or_fraction_raises"], key=_dkey, max_paths=60000),
        S(h_fixed_decimal, ["fixed_decimal.never_stored_as_another_number", "fixed_decimal.exact_size",
                            "fixed_decimal.error_only_when_unrepresentable",
                            "fixed_decimal.too_many_digits_or_fraction_raises"], key=_dkey, max_paths=60000),
        S(h_read_decimal, ["read_decimal.value"], max_paths=60000),
        S(h_decimal_roundtrip, ["decimal.roundtrip"], key=_dkey, max_paths=60000),
    ])
    run.bounds += ["dates: every ordinal 1..3652059 (0001-01-01..9999-12-31); times: every (h, m, s, microsecond); datetimes: every "
                   "microsecond of years 1..9999 with every UTC offset of whole microseconds in (-24h, 24h) whose UTC instant is itself a "
                   "datetime; naive datetimes under TZ=UTC; all as z3 integers, no sampling",
                   f"decimals: <= {DEC['max_digits']} digits, exponent in [-{DEC['max_exp']}, {DEC['max_exp']}], precision <= "
                   f"{DEC['max_prec']}, 0 <= scale <= precision, fixed size <= {DEC['max_size']}; every digit value and sign"]
    run.outside += ["Windows branches (is_windows)", "dates given as ISO strings (date.fromisoformat)",
                    "decimals beyond the stated digit/size bounds", "timestamps whose UTC instant lies outside years 1..9999"]
    run.assumptions += [f"float-division lemmas used: {sorted(tm.Ratio.USED)}",
                        "datetime/timedelta/time/date/Decimal/UUID objects are modelled by their documented contracts "
                        "(vf/symex/timemodels.py); every path witness is re-run on the real CPython objects"]
