"""C07 - any history of write/flush/block-copy/append reads back as the records submitted."""
from vf import ch
from . import l2, l7


def run(run, tier):
    hs = l7.harnesses(tier, run.seed)
    ch.run_harnesses(run, "C07", hs, timeout=200 if tier == "quick" else 400)
    from vf import bounds
    bounds.report(run, ["fastavro._write_py", "fastavro._read_py"], 4, "operations per history / records per block")
    l2.describe(run, tier)
    n = 4 if tier == "thorough" else 3
    run.bounds += [f"histories of <= {n} operations (plus the final flush) over {{write one of 2-3 conforming records, write one of 2-5 "
                   "non-conforming records (failing in the first field, a later field, inside an array, or at top level), flush, "
                   "write_block of either block of a two-block donor file with symbolic donor codec, flush+reopen for append with "
                   "4 argument variants (schema None / another schema and codec / other metadata / other sync marker and codec)}; "
                   "sync_interval any int >= 1, codec symbolic, validator on/off symbolic; 4 schemas incl. zero-byte records"]
    run.outside += ["longer histories", "records outside the listed variants (their encoding: C01/C02)"]
