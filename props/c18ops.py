"""C18 scenario catalogue: operations run concurrently in two threads on distinct streams (sharing parsed schemas
where the two threads run the same operation), and the replay of a solver-found schedule on the real code."""
import datetime
import decimal
import io
import json
import os
import sys

D = decimal.Decimal

REC_W = {"type": "record", "name": "Order", "namespace": "shop", "fields": [
    {"name": "id", "type": "long"},
    {"name": "addr", "type": {"type": "record", "name": "Addr", "fields": [
        {"name": "street", "type": "string"}, {"name": "zip", "type": "int"},
        {"name": "kind", "type": {"type": "enum", "name": "Kind", "symbols": ["HOME", "WORK", "POBOX"]}}]}},
    {"name": "prev", "type": {"type": "array", "items": "Addr"}},
    {"name": "note", "type": ["null", "string"]}]}
REC_R = {"type": "record", "name": "Order", "namespace": "shop", "fields": [
    {"name": "note", "type": ["null", "string"]},
    {"name": "ident", "aliases": ["id"], "type": "long"},
    {"name": "addr", "type": {"type": "record", "name": "Addr", "fields": [
        {"name": "street", "type": "string"}, {"name": "country", "type": "string", "default": "NL"},
        {"name": "kind", "type": {"type": "enum", "name": "Kind", "symbols": ["HOME", "WORK"], "default": "HOME"}}]}},
    {"name": "prev", "type": {"type": "array", "items": "Addr"}},
    {"name": "extra", "type": {"type": "map", "values": "int"}, "default": {"k": 1}}]}
REC_D = {"id": 7, "addr": {"street": "a", "zip": 1, "kind": "POBOX"}, "prev": [{"street": "b", "zip": 2, "kind": "WORK"}], "note": "n"}
REC_D2 = {"id": -1, "addr": {"street": "zz", "zip": 99, "kind": "HOME"}, "prev": [], "note": None}


def _dec(p, s, kind="bytes", size=8):
    d = {"type": kind, "logicalType": "decimal", "precision": p, "scale": s}
    if kind == "fixed":
        d.update(name=f"Fx{p}", size=size)
    return d


TS = {"type": "record", "name": "Ts", "fields": [
    {"name": "t", "type": {"type": "long", "logicalType": "timestamp-micros"}},
    {"name": "d", "type": {"type": "int", "logicalType": "date"}},
    {"name": "u", "type": {"type": "string", "logicalType": "uuid"}},
    {"name": "tm", "type": {"type": "int", "logicalType": "time-millis"}}]}
TS_D = {"t": datetime.datetime(2001, 2, 3, 4, 5, 6, 789, tzinfo=datetime.timezone.utc), "d": datetime.date(1999, 12, 31),
        "u": "12345678-1234-5678-1234-567812345678", "tm": datetime.time(1, 2, 3, 4000)}


class Op:
    def __init__(self, name, setup, fn, doc=""):
        self.name, self.setup, self.fn, self.doc = name, setup, fn, doc


def _real_parse(s):
    import copy
    import fastavro._schema_py as S
    return S.parse_schema(copy.deepcopy(s))


def _enc(schema, datum):
    import fastavro._write_py as W
    fo = io.BytesIO()
    W.schemaless_writer(fo, schema, datum)
    return fo.getvalue()


def _mk_write(schema, datum):
    def setup():
        return dict(schema=_real_parse(schema))

    def fn(world, ctx):
        fo = io.BytesIO()
        world.mod("fastavro._write_py").schemaless_writer(fo, ctx["schema"], datum)
        return fo.getvalue()
    return setup, fn


def _mk_read(schema, datum, reader=None):
    def setup():
        c = dict(schema=_real_parse(schema), data=_enc(schema, datum))
        if reader is not None:
            c["reader"] = _real_parse(reader)
        return c

    def fn(world, ctx):
        R = world.mod("fastavro._read_py")
        return repr(R.schemaless_reader(io.BytesIO(ctx["data"]), ctx["schema"], ctx.get("reader")))
    return setup, fn


def _mk_validate(schema, data):
    def setup():
        return dict(schema=_real_parse(schema))

    def fn(world, ctx):
        V = world.mod("fastavro._validation_py")
        return [V.validate(d, ctx["schema"], raise_errors=False) for d in data]
    return setup, fn


def _mk_parse(schema):
    def setup():
        return {}

    def fn(world, ctx):
        import copy
        S = world.mod("fastavro._schema_py")
        p = S.parse_schema(copy.deepcopy(schema))
        return S.to_parsing_canonical_form(p), S.fingerprint(S.to_parsing_canonical_form(p), "CRC-64-AVRO")
    return setup, fn


def _mk_json(schema, datum):
    def setup():
        return dict(schema=_real_parse(schema))

    def fn(world, ctx):
        JW, JR = world.mod("fastavro.json_write"), world.mod("fastavro.json_read")
        fo = io.StringIO()
        JW.json_writer(fo, ctx["schema"], [datum, datum])
        return fo.getvalue(), repr(list(JR.json_reader(io.StringIO(fo.getvalue()), ctx["schema"])))
    return setup, fn


def _mk_container(schema, data, codec):
    def setup():
        return dict(schema=_real_parse(schema))

    def fn(world, ctx):
        W, R = world.mod("fastavro._write_py"), world.mod("fastavro._read_py")
        fo = io.BytesIO()
        W.writer(fo, ctx["schema"], data, codec=codec, sync_interval=10, sync_marker=b"0123456789abcdef")
        return fo.getvalue(), repr(list(R.reader(io.BytesIO(fo.getvalue()))))
    return setup, fn


def _ops():
    L = []

    def add(name, pair, doc=""):
        L.append(Op(name, pair[0], pair[1], doc))
    add("write_dec12", _mk_write(_dec(12, 2), D("1234567890.12")), "bytes decimal precision 12")
    add("write_dec5", _mk_write(_dec(5, 1), D("1234.5")), "bytes decimal precision 5")
    add("write_fixdec", _mk_write(_dec(14, 3, "fixed", 8), D("-12345678901.234")), "fixed decimal")
    add("read_dec12", _mk_read(_dec(12, 2), D("1234567890.12")))
    add("read_dec3", _mk_read(_dec(3, 1), D("99.9")))
    add("read_fixdec", _mk_read(_dec(14, 3, "fixed", 8), D("-12345678901.234")))
    add("write_rec", _mk_write(REC_W, REC_D), "record with nested named types and a union")
    add("read_rec", _mk_read(REC_W, REC_D))
    add("resolve_rec", _mk_read(REC_W, REC_D, REC_R), "schema resolution against a parsed reader schema (aliases, defaults, enum default)")
    add("validate_rec", _mk_validate(REC_W, [REC_D, REC_D2, {"id": "x"}, None]))
    add("parse_A", _mk_parse(REC_W), "parse + canonical form + fingerprint")
    add("parse_B", _mk_parse(REC_R), "parse of another schema defining the same type names")
    add("json_rec", _mk_json(REC_W, REC_D))
    add("container_deflate", _mk_container(REC_W, [REC_D, REC_D2] * 3, "deflate"))
    add("logical_ts", _mk_read(TS, TS_D), "timestamp/date/uuid/time logical types")
    add("write_ts", _mk_write(TS, TS_D))
    return L


def _mk_pcf_piecewise():
    """a child type parsed on its own into a shared named-schema dictionary, the parent refers to it by name"""
    child = {"type": "fixed", "name": "org.demo.Digest", "size": 4}
    parent = {"type": "record", "name": "org.demo.Doc", "fields": [{"name": "h", "type": "org.demo.Digest"},
                                                                     {"name": "hs", "type": {"type": "map", "values": "org.demo.Digest"}}]}

    def setup():
        import copy
        import fastavro._schema_py as S
        named = {}
        S.parse_schema(copy.deepcopy(child), named)
        return dict(schema=S.parse_schema(copy.deepcopy(parent), named))

    def fn(world, ctx):
        S = world.mod("fastavro._schema_py")
        W = world.mod("fastavro._write_py")
        fo = io.BytesIO()
        W.writer(fo, ctx["schema"], [{"h": b"abcd", "hs": {"k": b"wxyz"}}], sync_marker=b"0123456789abcdef")
        return S.to_parsing_canonical_form(ctx["schema"]), fo.getvalue()
    return setup, fn


def _mk_generate(schema):
    def setup():
        return dict(schema=_real_parse(schema))

    def fn(world, ctx):
        import random
        U = world.mod("fastavro.utils")
        st = random.getstate()
        random.seed(7)
        try:
            return repr(U.generate_one(ctx["schema"]))[:2000]
        finally:
            random.setstate(st)
    return setup, fn


def _twins():
    """pairs of operations whose schemas define the same type names differently (symbol order, field order) and that
    write equal-comparing but differently encoded leaves: a cache keyed by name or by value shows up as a history"""
    L = []
    suit1 = {"type": "record", "name": "game.Card", "fields": [{"name": "s", "type": {"type": "enum", "name": "game.Suit", "symbols": ["SPADES", "HEARTS", "CLUBS"]}},
                                                                 {"name": "n", "type": "int"}, {"name": "s2", "type": "game.Suit"},
                                                                 {"name": "ss", "type": {"type": "array", "items": "game.Suit"}}]}
    suit2 = {"type": "record", "name": "game.Card", "fields": [{"name": "n", "type": "int"},
                                                                 {"name": "s", "type": {"type": "enum", "name": "game.Suit", "symbols": ["CLUBS", "JOKER", "HEARTS", "SPADES"]}},
                                                                 {"name": "ss", "type": {"type": "array", "items": "game.Suit"}}, {"name": "s2", "type": "game.Suit"}]}
    for nm, sch in (("enum_v1", suit1), ("enum_v2", suit2)):
        su, fn = _mk_write(sch, {"s": "SPADES", "n": 5, "s2": "HEARTS", "ss": ["CLUBS", "SPADES"]})
        L.append(Op("write_" + nm, su, fn, "same type names, different definitions"))
        su, fn = _mk_read(sch, {"s": "HEARTS", "n": -5, "s2": "SPADES", "ss": ["HEARTS"]})
        L.append(Op("read_" + nm, su, fn))
        su, fn = _mk_validate(sch, [{"s": "JOKER", "n": 1, "s2": "JOKER", "ss": []}, {"s": "CLUBS", "n": 1, "s2": "CLUBS", "ss": ["CLUBS"]}])
        L.append(Op("validate_" + nm, su, fn))
        su, fn = _mk_container(sch, [{"s": "HEARTS", "n": 1, "s2": "SPADES", "ss": ["HEARTS", "CLUBS"]}] * 2, "null")
        L.append(Op("container_" + nm, su, fn))
        su, fn = _mk_json(sch, {"s": "SPADES", "n": 5, "s2": "HEARTS", "ss": ["CLUBS"]})
        L.append(Op("json_" + nm, su, fn))
    # JSON text omitting fields whose defaults are nested containers (the decoder consumes what it is given)
    jd = {"type": "record", "name": "Jd", "fields": [
        {"name": "k", "type": "int"},
        {"name": "grid", "type": {"type": "array", "items": {"type": "array", "items": "int"}}, "default": [[1, 2], [3]]},
        {"name": "idx", "type": {"type": "map", "values": {"type": "array", "items": "string"}}, "default": {"a": ["x", "y"]}},
        {"name": "u", "type": ["null", "int"], "default": None}]}

    def jd_setup():
        return dict(schema=_real_parse(jd))

    def jd_fn(world, ctx):
        JR = world.mod("fastavro.json_read")
        text = '{"k": 1}\n{"k": 2}'
        return repr(list(JR.json_reader(io.StringIO(text), ctx["schema"]))), repr(list(JR.json_reader(io.StringIO(text), ctx["schema"])))
    L.append(Op("json_nested_defaults", jd_setup, jd_fn, "absent JSON fields with nested-container defaults, read twice"))
    fl = {"type": "record", "name": "Fl", "fields": [{"name": "f", "type": "float"}, {"name": "d", "type": "double"}, {"name": "l", "type": "long"}]}
    for nm, d in (("zeros_pos", {"f": 0.0, "d": 0.0, "l": 0}), ("zeros_neg", {"f": -0.0, "d": -0.0, "l": 0}), ("ints_as_floats", {"f": 0, "d": 1, "l": 1})):
        su, fn = _mk_write(fl, d)
        L.append(Op("write_" + nm, su, fn, "equal-comparing values with different encodings"))
    return L


def _mk_container_meta():
    """two files written with one user metadata dictionary and different codecs"""
    def setup():
        return dict(schema=_real_parse(REC_W), meta={"owner": "me"})

    def fn(world, ctx):
        W, R = world.mod("fastavro._write_py"), world.mod("fastavro._read_py")
        out = []
        for codec in ("deflate", "null"):
            fo = io.BytesIO()
            W.writer(fo, ctx["schema"], [REC_D, REC_D2], codec=codec, metadata=ctx["meta"], sync_marker=b"0123456789abcdef")
            rd = R.reader(io.BytesIO(fo.getvalue()))
            out.append((codec, rd.codec, rd.metadata.get("owner"), repr(list(rd))))
        return out
    return setup, fn


def _mk_strict_narrow():
    """a narrower definition of a record name that other operations define with more fields, written in strict mode
    with a datum carrying the extra fields: must be refused whatever was written before"""
    narrow = {"type": "record", "name": "game.Card", "fields": [
        {"name": "s", "type": {"type": "enum", "name": "game.Suit", "symbols": ["SPADES", "HEARTS", "CLUBS"]}}, {"name": "n", "type": "int"}]}

    def setup():
        return dict(schema=_real_parse(narrow))

    def fn(world, ctx):
        W = world.mod("fastavro._write_py")
        out = []
        for datum in ({"s": "SPADES", "n": 5, "s2": "HEARTS", "ss": ["CLUBS"]}, {"s": "SPADES", "n": 5}):
            fo = io.BytesIO()
            try:
                W.schemaless_writer(fo, ctx["schema"], datum, strict=True)
                out.append(fo.getvalue())
            except Exception as e:
                out.append(type(e).__name__)
        return out
    return setup, fn


def _mk_writer_reuse():
    """a Writer object that goes on after flush(): write, flush, write, flush"""
    def setup():
        return dict(schema=_real_parse(REC_W))

    def fn(world, ctx):
        W, R = world.mod("fastavro._write_py"), world.mod("fastavro._read_py")
        fo = io.BytesIO()
        w = W.Writer(fo, ctx["schema"], sync_marker=b"0123456789abcdef")
        w.write(REC_D)
        w.flush()
        w.write(REC_D2)
        w.flush()
        w.write(REC_D)
        w.flush()
        return fo.getvalue(), repr(list(R.reader(io.BytesIO(fo.getvalue()))))
    return setup, fn


def _all_ops():
    L = _ops() + _twins()
    su, fn = _mk_strict_narrow()
    L.append(Op("write_strict_narrow", su, fn, "strict mode with a narrower definition of a name defined elsewhere with more fields"))
    su, fn = _mk_writer_reuse()
    L.append(Op("writer_reuse_after_flush", su, fn, "Writer used on after flush()"))
    su, fn = _mk_container_meta()
    L.append(Op("container_metadata", su, fn, "user metadata dictionary reused for two files"))
    rec_g = dict(REC_W, fields=REC_W["fields"] + [{"name": "addr2", "type": "Addr"}, {"name": "k2", "type": "shop.Kind"}])
    su, fn = _mk_generate(rec_g)
    L.append(Op("generate_rec", su, fn, "generate_one on a parsed schema with by-name references"))
    su, fn = _mk_pcf_piecewise()
    L.append(Op("pcf_piecewise", su, fn, "canonical form and file header of a piecewise-parsed schema"))
    return L


OPS = {o.name: o for o in _all_ops()}


def make_fns(a, b):
    """thread functions for the pair (a, b): the same operation in both threads shares one context (parsed schemas)"""
    ca = OPS[a].setup()
    cb = ca if a == b else OPS[b].setup()
    return {"A": (lambda world: OPS[a].fn(world, ca)), "B": (lambda world: OPS[b].fn(world, cb))}, (ca, cb)


def solo(a):
    """the operation alone on the real code, fresh context"""
    from vf.conc import RealWorld
    c = OPS[a].setup()
    try:
        return ("ok", OPS[a].fn(RealWorld(), c))
    except Exception as e:
        return ("raised", type(e).__name__, str(e)[:200])


def replay_main(a, b, plan, expect):
    """run the pair with real threads gated into the schedule; REPRODUCED iff a thread's result differs from the
    result of its operation run alone (computed beforehand in another process and passed in as `expect`)"""
    from vf import conc
    fns, _ = make_fns(a, b)
    res = conc.replay_plan(fns, [(t, tuple(s) if s else None) for t, s in plan])
    bad = {t: (repr(res.get(t)), expect[t]) for t in ("A", "B") if repr(res.get(t)) != expect[t]}
    if bad:
        for t, (got, want) in bad.items():
            print(f"REPRODUCED thread {t} ({a if t == 'A' else b}) under the schedule: {got[:400]} ; alone: {want[:400]}")
        return 1
    print("not reproduced: both threads produce their sequential results under this schedule")
    return 0


def fresh(a):
    """repr of the operation's result in a fresh interpreter"""
    import subprocess
    code = ("import sys, os\nsys.path[:0]=[%r, %r]\nfrom props import c18ops\nprint(repr(c18ops.solo(%r)))"
            % (os.environ.get("VF_ROOT", "/verif"), os.environ.get("VF_REPO", "/repo"), a))
    r = subprocess.run([sys.executable, "-c", code], capture_output=True, text=True, timeout=120)
    return r.stdout.strip()


def history_main(a, b, expect_b):
    """run a, then b, in this (fresh) interpreter on the real code: REPRODUCED iff b's result differs from its result
    in a fresh interpreter (`expect_b`)"""
    solo(a)
    got = repr(solo(b))
    if got != expect_b:
        print(f"REPRODUCED {b} after {a}: {got[:500]} ; in a fresh interpreter: {expect_b[:500]}")
        return 1
    print("not reproduced: the second call's result equals its result in a fresh interpreter")
    return 0


def inputs_main(a):
    """run a on the real code: REPRODUCED iff it modifies the schema objects it is given"""
    import copy
    from vf.conc import RealWorld

    def plain(s, seen=None):
        seen = seen if seen is not None else set()
        if id(s) in seen:
            return "<cycle>"
        if isinstance(s, dict):
            seen = seen | {id(s)}
            return {k: (plain(v, seen) if k != "__named_schemas" else sorted(v)) for k, v in s.items()}
        if isinstance(s, list):
            return [plain(x, seen) for x in s]
        return s
    c = OPS[a].setup()
    before = repr({k: plain(v) for k, v in c.items()})
    try:
        OPS[a].fn(RealWorld(), c)
    except Exception:
        pass
    after = repr({k: plain(v) for k, v in c.items()})
    if before != after:
        print(f"REPRODUCED {a} modified the objects it was given")
        return 1
    print("not reproduced: arguments unchanged")
    return 0


HISTORY = '''# replay of a state leak found in the access traces: two calls in one fresh interpreter on the unmodified modules
import sys, os, json
sys.path[:0] = [os.environ.get("VF_ROOT", "/verif"), os.environ.get("VF_REPO", "/repo")]
from props import c18ops
sys.exit(c18ops.history_main({a!r}, {b!r}, json.loads({expect!r})))
'''

INPUTS = '''# replay: the operation modifies the schema objects handed to it
import sys, os
sys.path[:0] = [os.environ.get("VF_ROOT", "/verif"), os.environ.get("VF_REPO", "/repo")]
from props import c18ops
sys.exit(c18ops.inputs_main({a!r}))
'''

REPLAY = '''# replay of a schedule found by the schedule encoder: two real threads run the operations on the unmodified
# modules; they are gated at line boundaries (sys.settrace) into the order found.
import sys, os, json
sys.path[:0] = [os.environ.get("VF_ROOT", "/verif"), os.environ.get("VF_REPO", "/repo")]
from props import c18ops
sys.exit(c18ops.replay_main({a!r}, {b!r}, json.loads({plan!r}), json.loads({expect!r})))
'''
