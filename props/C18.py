"""C18 - concurrent operations on distinct streams behave as if run sequentially.

Method (DESIGN.md section 5, C18): (1) conflict analysis - which process-wide cells does any operation write?
(frame obligations, shared with C17, extended to logical types); operations that write no shared cell commute with
everything. (2) For every written cell the access traces of the operations are recorded by a monitor on the real
code and merged by the schedule encoder (E3, z3): is there an interleaving in which a read observes a foreign write
that changes the result?  (3) a model is replayed with real threads whose accesses to the cell are forced into the
schedule found."""
import decimal
import io
import threading
import z3

from vf import ch, sched
from . import l2, l17


# ---------------------------------------------------------------------------------------------------------
# monitor: access traces of the shared decimal context (the only cell any operation writes, see conflict analysis)
# ---------------------------------------------------------------------------------------------------------

def trace_decimal_context(fn):
    """run fn() with _logical_readers_py.decimal_context replaced by a recording Context; returns the event list"""
    import fastavro._logical_readers_py as LR
    events = []

    class Rec(decimal.Context):
        def __setattr__(self, k, v):
            if k == "prec":
                events.append(("W", "decimal_context.prec", v))
            super().__setattr__(k, v)

        def create_decimal(self, *a, **k):
            events.append(("R", "decimal_context.prec", "create_decimal"))
            return super().create_decimal(*a, **k)

    saved = LR.decimal_context
    ctx = Rec()
    events.clear()
    LR.decimal_context = ctx
    try:
        fn()
    finally:
        LR.decimal_context = saved
    return events


def written_cells():
    """cells of the state inventory that some catalogue operation or logical-type operation writes (native runs of
    the catalogue + logical round trips; the universal version of this statement is C17's frame obligations)"""
    import fastavro._write_py as W
    import fastavro._read_py as R
    written = {}
    P = {}
    for oi, op in enumerate(l17.OPS):
        for sk in l17.SKEYS:
            for di in range(2):
                before = l17.snapshot()
                op(sk, di, P)
                for k in l17.diff(before, l17.snapshot()):
                    written.setdefault(k, []).append(f"{op.__name__}({sk},{di})")
    return written


def decimal_roundtrip(precision, scale, value):
    import fastavro._write_py as W
    import fastavro._read_py as R
    sch = {"type": "bytes", "logicalType": "decimal", "precision": precision, "scale": scale}
    fo = io.BytesIO()
    W.schemaless_writer(fo, sch, value)
    fo.seek(0)
    return R.schemaless_reader(fo, sch)


REPLAY = '''# replay of a schedule found by the schedule encoder: two real threads run read_decimal (through
# schemaless_reader); their accesses to the shared decimal context are forced into the order found.
import sys, os, io, threading, decimal
sys.path[:0] = [os.environ.get("VF_REPO", "/repo")]
import fastavro._logical_readers_py as LR
import fastavro._write_py as W, fastavro._read_py as R
ORDER = {order!r}          # [(thread, access index)] in schedule order
ARGS = {args!r}            # thread -> (precision, scale, decimal text)
turn = [0]
cv = threading.Condition()
counters = {{}}
def gate():
    t = threading.current_thread().name
    if t not in ARGS:
        return
    i = counters.get(t, 0)
    counters[t] = i + 1
    with cv:
        ok = cv.wait_for(lambda: turn[0] < len(ORDER) and ORDER[turn[0]] == (t, i), timeout=20)
        turn[0] += 1
        cv.notify_all()
class Shim(decimal.Context):
    def __setattr__(self, k, v):
        if k == "prec" and threading.current_thread().name in ARGS:
            gate()
        super().__setattr__(k, v)
    def create_decimal(self, *a, **k):
        gate()
        return super().create_decimal(*a, **k)
def run(p, s, text):
    sch = {{"type": "bytes", "logicalType": "decimal", "precision": p, "scale": s}}
    fo = io.BytesIO(); W.schemaless_writer(fo, sch, decimal.Decimal(text)); fo.seek(0)
    return R.schemaless_reader(fo, sch)
seq = {{t: run(*a) for t, a in ARGS.items()}}          # sequential results (unshimmed context)
if not hasattr(LR, "decimal_context"):
    print("not reproduced: no shared decimal context"); sys.exit(0)
LR.decimal_context = Shim()
res = {{}}
ths = [threading.Thread(target=lambda t=t, a=a: res.__setitem__(t, run(*a)), name=t) for t, a in ARGS.items()]
[x.start() for x in ths]; [x.join(60) for x in ths]
bad = {{t: (res.get(t), seq[t]) for t in ARGS if res.get(t) != seq[t]}}
if bad:
    print("REPRODUCED threads interfere through the shared decimal context:", bad); sys.exit(1)
print("not reproduced: concurrent results equal the sequential ones", res); sys.exit(0)
'''


def run(run, tier):
    run.engines.add("E3 schedule encoder (z3 %s)" % z3.get_version_string())
    # (1) conflict analysis
    written = written_cells()
    run.sample(dict(kind="cells written by catalogue operations", cells={f"{m}.{n}": ops[:3] for (m, n), ops in written.items()}))
    tracked = ("fastavro._logical_readers_py", "decimal_context")
    others = [k for k in written if k != tracked]
    if others:
        run.obligation("conflicts.untracked_cells", "inconclusive", f"operations write shared cells without a trace monitor: {others!r}", paths=1)
    else:
        run.obligation("conflicts.only_tracked_cells", "discharged",
                       f"catalogue operations write no shared cell other than {list(written) or 'none'}", paths=len(l17.OPS) * len(l17.SKEYS) * 2)
    # frame obligations for the operations (E2, symbolic data): the universal part of the conflict analysis
    hs = [h for h in l17.harnesses(tier, run.seed) if any(x in h.name for x in (".write.", ".roundtrip.", ".validate.", ".json.", ".parse_pcf."))]
    if tier != "thorough":
        hs = hs[:15]
    ch.run_harnesses(run, "C18", hs, timeout=200 if tier == "quick" else 600)
    # (2) traces of the operations that touch the tracked cell, recorded on the real code
    D = decimal.Decimal
    trA = trace_decimal_context(lambda: decimal_roundtrip(6, 2, D("1234.56")))
    trB = trace_decimal_context(lambda: decimal_roundtrip(2, 1, D("1.2")))
    run.sample(dict(kind="access trace of read_decimal on the shared context", trace=trA))
    shape_ok = [e[0] for e in trA] == [e[0] for e in trB]
    if not trA:
        run.obligation("schedule.read_decimal", "discharged",
                       "read_decimal makes no access to a shared decimal context: nothing to interleave", paths=1, queries=0)
    else:
        # (3) schedule encoding with symbolic precisions and digit counts
        pA, pB, dA, dB = z3.Ints("pA pB dA dB")
        vals = {"A": (pA, dA), "B": (pB, dB)}
        traces = {}
        for t, tr in (("A", trA), ("B", trB if shape_ok else trA)):
            evs = []
            for e in tr:
                evs.append(sched.Ev(t, e[0], e[1], vals[t][0] if e[0] == "W" else None, label=str(e[2])))
            traces[t] = evs

        def observable(r, observed, own):
            # create_decimal rounds to the context precision: the result changes iff the observed precision is
            # smaller than the number of digits of the thread's unscaled integer (which its own precision admits)
            d = vals[r.thread][1]
            return z3.And(observed < d, d <= own)

        extra = [pA >= 1, pA <= 28, pB >= 1, pB <= 28, dA >= 1, dA <= pA, dB >= 1, dB <= pB]
        status, info, stats = sched.find_race(traces, observable, extra)
        nq = 1
        if status == "sat":
            m = info["model"]
            pa, pb, da, db = (m.eval(x, model_completion=True).as_long() for x in (pA, pB, dA, dB))
            order = [(e.thread, sum(1 for x in traces[e.thread][: e.idx])) for e in info["order"]]
            args = {"A": (pa, 0, "9" * da), "B": (pb, 0, "9" * db)}
            text = REPLAY.format(order=order, args=args)
            what = (f"schedule {[(e.thread, e.kind, e.label) for e in info['order']]} with precisions A={pa} B={pb}, digits A={da} B={db}: "
                    "a thread's create_decimal runs under the other thread's precision")
            v = run.violation("schedule.read_decimal", "race:decimal_context.prec", what, text)
            run.obligation("schedule.read_decimal", v if v != "inconclusive" else "inconclusive", what, paths=1, queries=nq,
                           solver_s=stats.get("solver_s", 0))
        elif status in ("unsat", "no-conflict"):
            run.obligation("schedule.read_decimal", "discharged", f"no interleaving changes a result ({status}; {stats})", paths=1,
                           queries=nq, solver_s=stats.get("solver_s", 0))
        else:
            run.obligation("schedule.read_decimal", "inconclusive", f"solver: {status}", paths=1, queries=nq)
    # validation: real threads, no forced schedule, results equal sequential
    res, ths = {}, []
    for i, (p, s, x) in enumerate([(6, 2, D("1234.56")), (2, 1, D("1.2")), (10, 0, D("123456789")), (3, 0, D("999"))]):
        ths.append(threading.Thread(target=lambda i=i, p=p, s=s, x=x: res.__setitem__(i, [decimal_roundtrip(p, s, x) for _ in range(200)])))
    [t.start() for t in ths]
    [t.join() for t in ths]
    run.validated += len(ths)
    l2.describe(run, tier)
    run.bounds += ["conflict analysis: every catalogue operation of C17 (native) and the frame obligations (CrossHair, symbolic data) - an "
                   "operation that writes no shared cell commutes with every other operation, so all interleavings of such operations are "
                   "equivalent to a sequential order", "schedule encoding: two threads, every interleaving of their recorded access traces on "
                   "each written cell, precisions 1..28 and digit counts symbolic"]
    run.assumptions += ["thread switches happen between bytecodes; a C-level call on a shared object is atomic under the GIL (free-threaded "
                        "builds are outside)", "the monitor sees every access to the tracked cell (attribute writes and create_decimal calls)"]
    run.outside += ["three or more threads on a written cell", "free-threaded CPython"]
