"""C18 - concurrent operations on distinct streams behave as if run sequentially.

Method (DESIGN.md sections 5 and 10, C18):
(1) access traces: the current source of every fastavro module is rewritten so that every attribute/subscript
    load and store, `in` test, iteration and call reports accesses to process-wide shared state (vf.conc); each
    operation of the scenario catalogue is recorded from the library's initial state;
(2) conflict analysis: an operation that writes no shared cell and reads none that another writes commutes with
    every other operation (all interleavings are equivalent to a sequential order);
(3) for every pair of operations with conflicting cells the schedule encoder (z3: position variables, program order,
    reads-from) decides for every (read, foreign write) pair whether an interleaving exists in which the read
    observes the foreign write instead of what it observes sequentially;
(4) every schedule found is replayed on the unmodified modules by real threads gated at line boundaries; a
    violation is reported only if a thread's result then differs from the result of its operation run alone.
The frame obligations shared with C17 (CrossHair, symbolic data) back step (2) for all data, not only the
catalogue's."""
import json
import os
import subprocess
import threading
import time
import z3

from vf import ch, sched, conc
from vf.report import PY, ROOT, REPO
from . import l2, l17, c18ops

MAX_REPLAYS_PER_PAIR = 16


def _record_all(run):
    recs = {}
    for name, op in c18ops.OPS.items():
        w = conc.World()
        ctx = op.setup()
        for k, v in ctx.items():
            w.rec.mark(v, f"<shared argument {k}>")
        res, evs = conc.record(w, lambda world: op.fn(world, ctx), thread="T")
        recs[name] = dict(result=res, events=evs, shared=len(w.rec.shared))
        run.functions.update(w.sources())
    return recs


def _rename(evs, t):
    out = []
    for e in evs:
        c = conc.Event(t, e.idx, e.kind, e.label, e.key, e.val, e.file, e.line, e.occ, e.what)
        out.append(c)
    return out


def _try_replay(run, a, b, plan, expect):
    """run the replay script in a fresh interpreter; (reproduced, script text, output)"""
    text = c18ops.REPLAY.format(a=a, b=b, plan=json.dumps(plan), expect=json.dumps(expect))
    path = run.write_replay(text)
    ok, out = run.run_replay(path, timeout=180)
    return ok, text, out, path


def run(run, tier):
    run.engines.add("E3 schedule encoder (z3 %s) over access traces of the rewritten source" % z3.get_version_string())
    t0 = time.time()
    try:
        recs = _record_all(run)
    except conc.NotInstrumentable as e:
        run.obligation("traces.instrumentation", "inconclusive", f"source construct the access rewriter does not handle: {e}", paths=1)
        recs = {}
    # sanity of the recording: the instrumented run returns what the real code returns
    solo = {}
    for name in recs:
        solo[name] = c18ops.solo(name)
        same = repr(solo[name]) == repr(recs[name]["result"])
        run.validated += 1
        if not same:
            run.internal_errors.append(f"instrumented run of {name} differs from the real code: {recs[name]['result']!r} vs {solo[name]!r}")
    # (2) conflict analysis
    writers = {n: sorted({(e.label, e.key) for e in r["events"] if e.kind == "W"}, key=repr) for n, r in recs.items()}
    run.sample(dict(kind="shared cells written per operation", cells={n: [f"{l}[{k}]" for l, k in w][:6] for n, w in writers.items() if w}))
    names = sorted(recs)
    pairs = [(a, b) for i, a in enumerate(names) for b in names[i:]]
    n_free, n_conf = 0, 0
    for a, b in pairs:
        traces = {"A": _rename(recs[a]["events"], "A"), "B": _rename(recs[b]["events"], "B")}
        rel = sched.relevant(traces)
        cands = sched.candidates(rel)
        ob = f"pair.{a}.{b}"
        if not cands:
            n_free += 1
            continue
        n_conf += 1
        # (3) + (4)
        seen, tried, stats_q, stats_t = set(), 0, 0, 0.0
        verdict, detail = "discharged", ""
        benign = 0
        expect = {"A": repr(solo[a]), "B": repr(solo[b])}
        for (r, w) in cands:
            k = (r.label, r.key, r.file, r.line, w.label, w.key, w.file, w.line, r.thread)
            if k in seen:
                continue
            seen.add(k)
            st, order, stats = sched.schedule_with(rel, r, w)
            stats_q += stats["queries"]
            stats_t += stats["solver_s"]
            if st == "unsat":
                continue
            if st != "sat":
                verdict, detail = "inconclusive", f"solver: {st} for read {r} / write {w}"
                continue
            if tried >= MAX_REPLAYS_PER_PAIR:
                verdict, detail = "inconclusive", f"more than {MAX_REPLAYS_PER_PAIR} distinct feasible conflicts; the rest was not replayed"
                break
            tried += 1
            plan = sched.plan_of(order, r, rel)
            ok, text, out, path = _try_replay(run, a, b, plan, expect)
            if ok:
                what = (f"threads running {a} and {b}: schedule {[(e.thread, e.kind, e.what, e.key) for e in order[:order.index(r) + 1]][-6:]} lets "
                        f"{r.thread} read {r.what}[{r.key}] written by the other thread at {os.path.basename(w.file)}:{w.line}; {out[-300:]}")
                v = run.violation(ob, f"race:{r.label}", what, text)
                verdict, detail = (v, what)
                if v in ("violated", "known"):
                    break
            else:
                benign += 1
        if verdict == "discharged":
            detail = (f"{len(seen)} distinct (read, foreign write) conflicts: {len(seen) - tried} infeasible by the solver, {benign} feasible "
                      f"schedules replayed on the real code without any change of result")
        run.obligation(ob, verdict, detail, paths=len(seen), queries=stats_q, solver_s=stats_t)
    run.obligation("conflicts.commuting_pairs", "discharged" if recs else "inconclusive",
                   f"{n_free} of {len(pairs)} operation pairs have no read of a cell the other operation writes (every interleaving "
                   f"is equivalent to a sequential order); {n_conf} pairs with conflicts decided by the schedule encoder",
                   paths=len(pairs))
    run.extra["record_s"] = round(time.time() - t0, 1)
    # frame obligations for the operations (E2, symbolic data): the universal part of the conflict analysis
    hs = [h for h in l17.harnesses(tier, run.seed) if any(x in h.name for x in (".write.", ".roundtrip.", ".validate.", ".json.", ".parse_pcf."))]
    if tier != "thorough":
        hs = hs[:15]
    ch.run_harnesses(run, "C18", hs, timeout=200 if tier == "quick" else 600)
    # validation: real threads, no forced schedule, results equal the sequential ones
    res = {}

    def worker(i, name):
        res[i] = [repr(c18ops.solo(name)) for _ in range(20)]
    ths = [threading.Thread(target=worker, args=(i, n)) for i, n in enumerate(names[:8])]
    [t.start() for t in ths]
    [t.join() for t in ths]
    for i, n in enumerate(names[:8]):
        if any(x != repr(solo[n]) for x in res.get(i, [])):
            # observed, but not under a schedule the encoder produced and replayed: reported as inconclusive
            run.obligation(f"validation.free_running.{n}", "inconclusive",
                           f"real threads running freely: {n} gave a result different from its sequential one (not a replayed schedule)", paths=1)
    run.validated += len(ths)
    l2.describe(run, tier)
    run.bounds += [f"scenario catalogue: {len(names)} operations ({', '.join(names)}), every unordered pair including an operation paired with "
                   "itself (then both threads share the parsed schema objects); two threads",
                   "schedule encoding: every (read, foreign write) pair on a conflicting cell, all interleavings of the two recorded access "
                   "traces (z3 position variables); data of the operations concrete (catalogue), frame obligations with symbolic data",
                   "shared state: everything mutable reachable from module globals and mutable default arguments of the fastavro modules, "
                   "the parsed schemas shared by the threads, and everything stored into those (by object identity at run time)"]
    run.assumptions += ["thread switches happen between bytecodes; a C-level call on a shared object is atomic under the GIL (free-threaded "
                        "builds are outside)",
                        "traces are recorded per operation from the initial state; a schedule is replayed up to the racy read, after which the "
                        "threads run freely (the code may take paths the recording did not see)",
                        "replay gates threads at line boundaries of the real code: two conflicting accesses on one source line cannot be separated"]
    run.outside += ["three or more threads", "free-threaded CPython", "state outside fastavro's modules (stdlib caches, the global random source)",
                    "races that need particular data other than the catalogue's to change a result"]
    run.stubs |= {"none in the replay: real modules, real threads, real streams"}
