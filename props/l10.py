"""C10: validate accepts exactly conforming data and agrees with what the writers accept."""
from vf import rt, family, shape
from vf.oracles import ir as IR, codec, conform
from vf.shape import OutOfDomain
from . import l2
from .l2 import _same

import fastavro._write_py as W
import fastavro._read_py as R
import fastavro._validation_py as V
from fastavro._validate_common import ValidationError

SCHEMAS = ["prim_int", "prim_long", "prim_string", "prim_bytes", "prim_double", "prim_boolean", "prim_null", "prim_float",
           "enum", "fixed", "rec_flat", "rec_floats", "rec_defaults", "rec_defaults2", "pair_array_int", "pair_map_long",
           "pair_array_record", "pair_map_union", "union_prims", "union_two_recs", "union_named_mix", "union_overlap",
           "pair_field_union", "pair_field_null", "pair_field_fixed", "pair_field_enum", "chain_rec_union_rec_arr",
           "ref_after_def", "ns_inherit", "rec_list", "union_in_array_named", "rec_dictnull", "enum_default", "rec_enum_default", "hint_foreign", "rec_defaults_bytes"]
QUICK = ["prim_int", "prim_long", "prim_double", "enum", "fixed", "rec_flat", "rec_defaults", "pair_array_int",
         "pair_map_long", "union_named_mix", "union_two_recs", "pair_field_union", "pair_field_null", "rec_list",
         "pair_array_record", "rec_dictnull", "enum_default", "rec_enum_default", "hint_foreign", "rec_defaults_bytes"]
# a known defect is pinned to this schema (defaults of bytes/fixed fields given as JSON strings): every violation
# found on it carries the finding's key
KNOWN_KEYS = {"rec_defaults_bytes": "default:bytes-or-fixed-json-string"}


def base_samples(c, seed, n):
    return shape.samples(c["ir"], c["names"], c["cfg"], seed, n=n)


def pick(samples, si):
    for i, x in enumerate(samples):
        if si == i:
            return x
    raise OutOfDomain()


def _datum(c, v, pos, kind, hs=()):
    if isinstance(v, tuple) and len(v) == 2 and isinstance(v[0], list) and v[0] and v[0][0] == "__samples__":
        v = pick(v[0][1:], v[1])
    hints = shape.Hints(hs)
    mut = shape.Mut(pos, kind) if pos >= 0 else None
    d = shape.build(c["ir"], c["names"], v, c["cfg"], hints=hints, mut=mut)
    if d is shape.DELETED:
        raise OutOfDomain()
    if mut is not None and not mut.applied:
        raise OutOfDomain()
    return d


def reseq(d, sk):
    """the same datum with every list of plain ints / of anything re-spelled as another kind of non-string sequence:
    1 array.array('q') (int items that fit), 2 collections.deque, 3 a user-defined Sequence"""
    import array
    import collections
    if isinstance(d, dict):
        return {k: reseq(x, sk) for k, x in d.items()}
    if isinstance(d, list):
        items = [reseq(x, sk) for x in d]
        if sk == 1:
            if all(isinstance(x, int) and not isinstance(x, bool) and -(1 << 63) <= x < (1 << 63) for x in items):
                return array.array("q", items)
            return items
        if sk == 2:
            return collections.deque(items)
        if sk == 3:
            return _Seq(items)
        return items
    return d


class _Seq:
    """a minimal user-defined sequence (registered with collections.abc.Sequence below)"""

    def __init__(self, items):
        self._i = list(items)

    def __len__(self):
        return len(self._i)

    def __getitem__(self, k):
        return self._i[k]

    def __iter__(self):
        return iter(self._i)

    def __repr__(self):
        return f"_Seq({self._i!r})"


import collections.abc as _abc
_abc.Sequence.register(_Seq)


def ob_validate_seq(c, v, pos, kind, sk):
    """validate on data whose arrays are spelled as other kinds of non-string sequences"""
    if not (0 <= sk <= 3):
        return True, "out of domain"
    try:
        d = reseq(_datum(c, v, pos, kind), sk)
    except OutOfDomain:
        return True, "out of domain"
    want = conform.conforms(c["ir"], d, c["names"])
    try:
        got = V.validate(d, c["parsed"], raise_errors=False)
    except Exception as e:
        return False, f"validate(raise_errors=False) raised {type(e).__name__}: {e} for {d!r}"
    if bool(got) != want:
        return False, f"validate returned {got!r}, conformance is {want} for {d!r}"
    if want:
        fo = rt.new_io()
        try:
            W.schemaless_writer(fo, c["parsed"], d)
            rt.rewind(fo)
            r = R.schemaless_reader(fo, c["parsed"])
        except Exception as e:
            return False, f"conforming datum {d!r} not written/read: {type(e).__name__}: {e}"
    return True, ""


def ob_validate_hinted(c, v, hs):
    """(name, value) / '-type' hints, including hints that name no branch or a type defined elsewhere in the schema:
    validate == conformance, and the writers agree"""
    for h in hs:
        if not (0 <= h <= 4):
            return True, "out of domain"
    try:
        d = _datum(c, v, -1, 0, hs)
    except OutOfDomain:
        return True, "out of domain"
    want = conform.conforms(c["ir"], d, c["names"])
    try:
        got = V.validate(d, c["parsed"], raise_errors=False)
    except Exception as e:
        return False, f"validate(raise_errors=False) raised {type(e).__name__}: {e} for {d!r}"
    if bool(got) != want:
        return False, f"validate returned {got!r}, conformance is {want} for hinted datum {d!r}"
    fo = rt.new_io()
    try:
        W.schemaless_writer(fo, c["parsed"], d)
        wrote = True
    except Exception:
        wrote = False
    if want and not wrote:
        return False, f"validate accepts the hinted datum {d!r} but the writer refuses it"
    if not want and wrote and any(h in (3, 4) for h in hs):
        return False, f"the writer accepts {d!r} although the hint names no branch of the union"
    return True, ""


def ob_validate(c, v, pos, kind, strict, dtn):
    """validate == conformance; raising mode raises ValidationError exactly in the False cases"""
    try:
        d = _datum(c, v, pos, kind)
    except OutOfDomain:
        return True, "out of domain"
    want = conform.conforms(c["ir"], d, c["names"], strict=strict, tuple_notation=not dtn)
    try:
        got = V.validate(d, c["parsed"], raise_errors=False, strict=strict, disable_tuple_notation=dtn)
    except Exception as e:
        return False, f"validate(raise_errors=False) raised {type(e).__name__}: {e} for {d!r}"
    if bool(got) != want or not isinstance(got, bool):
        return False, f"validate returned {got!r}, conformance is {want} for {d!r} (strict={strict})"
    try:
        r = V.validate(d, c["parsed"], raise_errors=True, strict=strict, disable_tuple_notation=dtn)
        raised = False
    except ValidationError:
        raised = True
    except Exception as e:
        return False, f"validate(raise_errors=True) raised {type(e).__name__} (not ValidationError): {e} for {d!r}"
    if raised == want:
        return False, f"raise_errors=True {'raised' if raised else 'did not raise'} although conformance is {want} for {d!r}"
    try:
        many = V.validate_many([d, d], c["parsed"], raise_errors=False, strict=strict, disable_tuple_notation=dtn)
    except Exception as e:
        return False, f"validate_many raised {type(e).__name__}: {e} for {d!r}"
    if bool(many) != want:
        return False, f"validate_many returned {many!r}, conformance is {want} for {d!r}"
    return True, ""


def ob_writer_agrees(c, v, pos, kind, dtn):
    """accepted by validate => written and read back; rejected => Writer(validator=True) raises before
    anything of that record reaches the pending buffer"""
    try:
        d = _datum(c, v, pos, kind)
    except OutOfDomain:
        return True, "out of domain"
    want = conform.conforms(c["ir"], d, c["names"], tuple_notation=not dtn)
    if want:
        fo = rt.new_io()
        try:
            W.schemaless_writer(fo, c["parsed"], d, disable_tuple_notation=dtn)
            rt.rewind(fo)
            r = R.schemaless_reader(fo, c["parsed"])
        except Exception as e:
            return False, f"conforming datum {d!r} not written/read: {type(e).__name__}: {e}"
        try:
            exp = codec.normalise(c["ir"], d, c["names"], rt.f32)
        except codec.Silent:
            return True, "statement silent"
        if not _same(r, exp):
            return False, f"conforming datum {d!r} read back as {r!r}, expected {exp!r}"
        return True, ""
    fo = rt.new_io()
    w = W.Writer(fo, c["parsed"], validator=True, sync_marker=b"0123456789abcdef",
                 options={"disable_tuple_notation": dtn})
    try:
        w.write(d)
    except Exception:
        if w.block_count != 0 or w.io._fo.tell() != 0:
            return False, f"rejected datum {d!r} left data in the pending buffer"
        return True, ""
    return False, f"Writer(validator=True) accepted non-conforming datum {d!r}"


def ob_strict(c, v, pos):
    """strict mode: a record lacking a field without default is rejected even when the field accepts null"""
    try:
        d = _datum(c, v, pos, shape.DELETE)
    except OutOfDomain:
        return True, "out of domain"
    want = conform.conforms(c["ir"], d, c["names"], strict=True)
    try:
        got = V.validate(d, c["parsed"], raise_errors=False, strict=True)
    except Exception as e:
        return False, f"validate(strict) raised {type(e).__name__}: {e} for {d!r}"
    if bool(got) != want:
        return False, f"strict validate returned {got!r}, conformance(strict) is {want} for {d!r}"
    return True, ""


def harnesses(tier, seed):
    """per schema: (a) symbolic conforming data without mutation; (b) seeded concrete base data with a
    symbolic mutation position and kind"""
    from vf.ch import Harness
    import zlib
    hs = []
    th = tier == "thorough"
    nb = 4 if th else 2
    for name in (SCHEMAS if th else QUICK):
        c = l2.case(name, th)
        a = shape.ann(c["ir"], c["names"], c["cfg"])
        setup = (f"from props.l2 import case\nC = case({name!r}, {th})\n"
                 f"C = dict(C, cfg=C['cfg'].but(K={2 if th else 1}, ints='pool', bytes='pool'))\n"
                 f"B = ['__samples__'] + base_samples(C, {seed}, {nb})")
        par = bool((zlib.crc32(name.encode()) + seed) & 1)
        sd = "strict, dtn" if th else f"False, {par}"
        sdp = ", strict: bool, dtn: bool" if th else ""
        call = f"ob_validate(C, v, -1, 0, {sd})"
        c2 = dict(c, cfg=c["cfg"].but(K=2 if th else 1, ints="pool", bytes="pool"))
        sv = shape.samples(c2["ir"], c2["names"], c2["cfg"], seed + 9, n=2)
        ex = (False, False) if th else ()
        hs.append(Harness(f"validate.conforming.{name}", "props.l10", f"v: {a}{sdp}", call + "[0]", replay_call=call,
                          setup=setup, what=f"validate on conforming data of {name}", samples=[(v,) + ex for v in sv]))
        call = f"ob_validate(C, (B, si), pos, kind, {sd})"
        hs.append(Harness(f"validate.mutated.{name}", "props.l10", f"si: int, pos: int, kind: int{sdp}", call + "[0]",
                          replay_call=call, setup=setup, what=f"validate on mutated data of {name}",
                          samples=[(0, 0, 7) + ex, (1, 0, shape.DELETE) + ex, (0, 1, 2) + ex]))
        dt = "dtn" if th else f"{not par}"
        dtp = ", dtn: bool" if th else ""
        call = f"ob_writer_agrees(C, v, -1, 0, {dt})"
        hs.append(Harness(f"writer.conforming.{name}", "props.l10", f"v: {a}{dtp}", call + "[0]", replay_call=call,
                          setup=setup, what=f"writer agreement on conforming data of {name}"))
        call = f"ob_writer_agrees(C, (B, si), pos, kind, {dt})"
        hs.append(Harness(f"writer.mutated.{name}", "props.l10", f"si: int, pos: int, kind: int{dtp}", call + "[0]",
                          replay_call=call, setup=setup, what=f"writer agreement on mutated data of {name}", key=_wkey,
                          samples=[(0, 0, 7) + ((False,) if th else ()), (1, 1, 3) + ((False,) if th else ())]))
        if name in ("union_named_mix", "union_two_recs", "hint_foreign", "pair_field_union", "union_in_array_named"):
            call = "ob_validate_hinted(C, v, (h0, 0))"
            hs.append(Harness(f"validate.hinted.{name}", "props.l10", f"v: {a}, h0: int", call + "[0]", replay_call=call,
                              setup=setup, what=f"validate on hinted data of {name}",
                              samples=[(x, 1) for x in sv[:1]] + [(x, 4) for x in sv[1:]]))
        if name in ("pair_array_int", "pair_array_long", "pair_array_record", "chain_arr_arr"):
            setup2 = (f"from props.l2 import case\nC = case({name!r}, {th})\n"
                      f"C = dict(C, cfg=C['cfg'].but(K=2, ints='pool', bytes='pool'))\n"
                      f"B = ['__samples__'] + base_samples(C, {seed + 3}, 4)")
            call = "ob_validate_seq(C, (B, si), pos, kind, sk)"
            hs.append(Harness(f"validate.seqkinds.{name}", "props.l10", "si: int, pos: int, kind: int, sk: int", call + "[0]",
                              replay_call=call, setup=setup2, what=f"validate on other sequence kinds for {name}",
                              samples=[(0, -1, 0, 1), (1, 2, 7, 1), (2, 1, 2, 2), (3, -1, 0, 3)]))
        if IR.deref(c["ir"], c["names"])["k"] in ("record", "union", "array", "map"):
            call = "ob_strict(C, (B, si), pos)"
            hs.append(Harness(f"strict.{name}", "props.l10", "si: int, pos: int", call + "[0]", replay_call=call,
                              setup=setup, what=f"strict validation on {name}"))
    for h in hs:
        for nm, key in KNOWN_KEYS.items():
            if h.name.endswith("." + nm):
                h.key = (lambda a, k, key=key: key)
    return hs


def _wkey(a, k):
    return "writer-agreement:" + ("missing-field" if a[2] == shape.DELETE else f"mutant{a[2]}")

