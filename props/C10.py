"""C10 - validate accepts exactly conforming data and agrees with what writers accept."""
from vf import ch
from vf.e1 import E1Runner
from . import l2, l10, prim


def run(run, tier):
    prim.run_group(run, E1Runner(run), prim.VALIDATOR_HARNESSES)
    ch.run_harnesses(run, "C10", l10.harnesses(tier, run.seed), timeout=120 if tier == "quick" else 400)
    l2.describe(run, tier)
    from vf import shape
    run.bounds += ["schemas: " + ", ".join(l10.SCHEMAS if tier == "thorough" else l10.QUICK),
                   f"data: (a) symbolic conforming data (int/long leaves from a pool incl. range extremes, K<=1 quick / 2 thorough); (b) 2 (quick) / 4 (thorough) seeded concrete base data with one mutation at a symbolic pre-order position: replacement by one "
                   f"of {len(shape.MUTANTS)} wrong-typed/out-of-range values (symbolic choice) or deletion of that record field; "
                   "raise_errors, strict, disable_tuple_notation symbolic"]
