"""C14 - fingerprints: CRC-64-AVRO equals the specification's Rabin fingerprint for
every text (induction: init + arbitrary-state step + output formatting), named
digests are dispatched to hashlib with the mapped name, unknown names raise."""
import hashlib
import z3

from vf.e1 import E1Runner, Z
from vf.symex import hooks
from vf.symex.core import WIDTH, zint, SInt

SC = "fastavro._schema_common"
SP = "fastavro._schema_py"
EMPTY = 0xC15D213AA4D7A795  # the specification's seed and polynomial


def bv(x):
    return z3.BitVecVal(x, WIDTH)


def spec_step(fp, byte):
    """bitwise CRC-64-AVRO step on 64-bit state fp (BV WIDTH, 0 <= fp < 2^64)"""
    fp = fp ^ byte
    for _ in range(8):
        fp = z3.LShR(fp, 1) ^ (bv(EMPTY) & -(fp & 1))
        fp = fp & bv((1 << 64) - 1)
    return fp


def _le_bytes(fp):
    return [z3.ZeroExt(WIDTH - 8, z3.Extract(8 * i + 7, 8 * i, fp)) for i in range(8)]


def _out_terms(m, r):
    """fingerprint output -> list of byte terms (hex string in concrete mode)"""
    if m.sym and not isinstance(r, str):
        return m.byte_terms(r.b)
    if not (isinstance(r, str) and len(r) == 16 and r == r.lower()):
        return None
    return [zint(x) for x in bytes.fromhex(r)]


def _data(m, k, tag="d"):
    bs = [m.byte(f"{tag}{i}") for i in range(k)]
    if m.sym:
        from vf.symex.models import SBytes
        return SBytes(bs), [Z(b) for b in bs]
    return bytes(bs), [Z(b) for b in bs]


def _same(m, ob, out, fp, what):
    if out is None or len(out) != 8:
        m.fail(ob, "output is not sixteen lower-case hex digits")
        return
    sp = _le_bytes(fp)
    m.prove(ob, z3.And(*[out[i] == sp[i] for i in range(8)]), what)


def h_init(m):
    r = m.mod(SC).rabin_fingerprint(b"")
    _same(m, "init", _out_terms(m, r), bv(EMPTY), "empty input does not map to the seed (little-endian hex)")


def h_step(m):
    """arbitrary 64-bit state S before the loop, one arbitrary byte"""
    S = m.int("S", 0, (1 << 64) - 1)
    data, (b,) = _data(m, 1)
    if m.sym:
        hooks.HAVOC_ARMED[("rabin_fingerprint", "result")] = lambda cur: S
        try:
            r = m.mod(SC).rabin_fingerprint(data)
        finally:
            hooks.HAVOC_ARMED.clear()
        out = _out_terms(m, r)
    else:
        # concrete replay of an arbitrary state: there is no public way to start the real
        # loop from S, so S must be a reachable state; replay via a one-step reference on
        # the real table is not possible either -> use prefix search only for S = seed
        if S != EMPTY:
            from vf.e1 import Unreplayable
            raise Unreplayable("arbitrary loop state")
        out = _out_terms(m, m.mod(SC).rabin_fingerprint(data))
    _same(m, "step", out, spec_step(Z(S), b), "table-driven step differs from the bitwise CRC-64-AVRO definition")


E2E_MAX = [1]


def h_end2end(m):
    k = m.choice("k", 0, E2E_MAX[0])
    data, bs = _data(m, k)
    r = m.mod(SC).rabin_fingerprint(data)
    fp = bv(EMPTY)
    for b in bs:
        fp = spec_step(fp, b)
    _same(m, "end2end", _out_terms(m, r), fp, "fingerprint differs from the specification")


TWICE_LEN = [3]


def _crc64_ref(data):
    fp = EMPTY
    for byte in data:
        fp ^= byte
        for _ in range(8):
            fp = (fp >> 1) ^ (EMPTY & -(fp & 1))
            fp &= (1 << 64) - 1
    return fp


def h_twice(m):
    """the fingerprint of a text does not depend on texts fingerprinted earlier: two calls on arbitrary byte strings
    of equal length (a result cache must be keyed by the whole text).  Symbolically the second call's result is compared
    with the result of the same call in a private fresh copy of the module (identical terms unless the first call left
    something behind); the replay compares with the reference CRC."""
    k = TWICE_LEN[0]
    d1, b1 = _data(m, k, "a")
    d2, b2 = _data(m, k, "b")
    if m.sym:
        from vf.symex import rewrite
        m.mod(SC)
        fresh = rewrite.fresh_instance(SC).rabin_fingerprint(d2)
        used = rewrite.fresh_instance(SC)
        used.rabin_fingerprint(d1)
        again = used.rabin_fingerprint(d2)
        a, b = _out_terms(m, fresh), _out_terms(m, again)
        ok = a is not None and b is not None and len(a) == len(b) == 8
        m.prove("second_call", z3.And(*[x == y for x, y in zip(a, b)]) if ok else z3.BoolVal(False),
                "the fingerprint of a text depends on a text fingerprinted before it")
        return
    f = m.mod(SC).rabin_fingerprint
    f(d1)
    r = f(d2)
    want = _crc64_ref(bytes(d2)).to_bytes(8, "little").hex()
    m.prove("second_call", r == want, "the fingerprint of a text depends on a text fingerprinted before it")


class _Unknown(str):
    """a name equal to no advertised algorithm"""


class _Recorder:
    def __init__(self):
        self.calls = []

    def new(self, name, data=b"", **kw):
        self.calls.append((name, data))
        rec = self

        class H:
            def hexdigest(self_inner):
                return ("digest", name, id(data))
        return H()

    def __getattr__(self, k):
        return getattr(hashlib, k)


def _advertised():
    """the advertised names, computed independently of the module under test"""
    return sorted(set(hashlib.algorithms_guaranteed) | {"MD5", "SHA-256", "CRC-64-AVRO"})


NAME_CAP = [12]


def _or(*xs):
    return z3.Or(*[Z(x) for x in xs]) if xs else z3.BoolVal(False)


def h_dispatch(m):
    """The algorithm name is a symbolic string (every ASCII string of at most NAME_CAP characters): ValueError is
    raised exactly for names outside the advertised set; every advertised fixed-length name (and the Java
    spellings) reaches hashlib.new with the mapped name and the UTF-8 bytes of the text; CRC-64-AVRO goes to
    rabin_fingerprint."""
    mod = m.mod(SP)
    adv = _advertised()
    java = {"SHA-256": "sha256", "MD5": "md5"}
    name = m.sstr("A", NAME_CAP[0], small=8)
    text = m.ostr("T")
    payload = text.encode()
    is_adv = _or(*[name == a for a in adv])
    saved_h, saved_r = mod.hashlib, mod.rabin_fingerprint
    rec = _Recorder()
    rabin_calls = []
    mod.hashlib = rec
    mod.rabin_fingerprint = lambda d: (rabin_calls.append(d), "rabin")[1]
    try:
        try:
            r = mod.fingerprint(text, name)
        except ValueError:
            m.prove("dispatch.unknown_raises", z3.Not(is_adv), "an advertised algorithm name raised ValueError")
            return
        finally:
            mod.hashlib, mod.rabin_fingerprint = saved_h, saved_r
    except (TypeError, KeyError, AttributeError) as e:
        m.fail("dispatch.no_other_exception", f"{type(e).__name__}: {e}")
        return
    m.prove("dispatch.unknown_raises", is_adv, f"a name outside the advertised set did not raise ValueError (returned {r!r})")
    is_rabin = Z(name == "CRC-64-AVRO")
    if rabin_calls:
        ok = isinstance(r, str) and r == "rabin" and len(rabin_calls) == 1 and not rec.calls and _same_payload(m, rabin_calls[0], payload)
        m.prove("dispatch.rabin", z3.And(is_rabin, z3.BoolVal(bool(ok))),
                "rabin_fingerprint used for a name other than CRC-64-AVRO, or not over the UTF-8 bytes")
        return
    m.prove("dispatch.rabin", z3.Not(is_rabin), "CRC-64-AVRO not computed by rabin_fingerprint")
    if len(rec.calls) != 1:
        m.fail("dispatch.hashlib", f"hashlib.new called {len(rec.calls)} times")
        return
    called, data = rec.calls[0]
    shape = isinstance(r, tuple) and len(r) == 3 and r[0] == "digest" and r[2] == id(data) and _same_payload(m, data, payload)
    # for every advertised name a: name == a  ->  hashlib.new was called with java.get(a, a)
    conds = [z3.Implies(Z(name == a), Z(called == java.get(a, a))) for a in adv if a != "CRC-64-AVRO"]
    m.prove("dispatch.hashlib", z3.And(z3.BoolVal(bool(shape)), *conds),
            "the result is not hashlib.new(<mapped name>, utf8(text)).hexdigest()")


def h_dispatch_twice(m):
    """the verdict on an algorithm name does not depend on an earlier call with the same name: an unknown name raises
    ValueError the second time as well (a cache of resolved algorithms must not be filled before validation)"""
    mod = m.mod(SP)
    adv = _advertised()
    name = m.sstr("A", NAME_CAP[0], small=8)
    text = m.ostr("T")
    is_adv = _or(*[name == a for a in adv])
    saved_h, saved_r = mod.hashlib, mod.rabin_fingerprint
    mod.hashlib = _Recorder()
    mod.rabin_fingerprint = lambda d: "rabin"
    try:
        try:
            mod.fingerprint(text, name)
        except ValueError:
            pass
        try:
            mod.fingerprint(text, name)
        except ValueError:
            m.prove("dispatch.second_call.unknown_raises", z3.Not(is_adv), "an advertised algorithm name raised ValueError on the second call")
            return
    finally:
        mod.hashlib, mod.rabin_fingerprint = saved_h, saved_r
    m.prove("dispatch.second_call.unknown_raises", is_adv, "a name outside the advertised set did not raise ValueError on the second call")


TEXT_CAP = [3]


def h_dispatch_text(m):
    """the bytes handed to the digest / to rabin_fingerprint are exactly the UTF-8 bytes of the text, for a text that is
    a symbolic character-level string (every ASCII string up to TEXT_CAP characters, including whitespace and control
    characters at either end) and each kind of algorithm"""
    mod = m.mod(SP)
    text = m.sstr("X", TEXT_CAP[0], small=2)
    which = m.choice("alg", 0, 2)
    name = ["CRC-64-AVRO", "sha256", "MD5"][which]
    want = text.encode()
    saved_h, saved_r = mod.hashlib, mod.rabin_fingerprint
    rec = _Recorder()
    rabin_calls = []
    mod.hashlib = rec
    mod.rabin_fingerprint = lambda d: (rabin_calls.append(d), "rabin")[1]
    try:
        mod.fingerprint(text, name)
    finally:
        mod.hashlib, mod.rabin_fingerprint = saved_h, saved_r
    got = rabin_calls[0] if rabin_calls else (rec.calls[0][1] if rec.calls else None)
    if got is None:
        m.fail("dispatch.payload_is_utf8_of_text", "nothing was hashed")
        return
    if m.sym:
        from vf.symex.models import SBytes
        a, b = SBytes.lift(got), SBytes.lift(want)
        if a.has_blob() or b.has_blob():
            raise __import__("vf.symex.core", fromlist=["Unsupported"]).Unsupported("opaque payload")
        same = z3.And(*[zint(x) == zint(y) for x, y in zip(a.pieces, b.pieces)]) if len(a.pieces) == len(b.pieces) else z3.BoolVal(False)
        m.prove("dispatch.payload_is_utf8_of_text", same, "the hashed bytes are not the UTF-8 bytes of the text")
    else:
        m.prove("dispatch.payload_is_utf8_of_text", bytes(got) == bytes(want), "the hashed bytes are not the UTF-8 bytes of the text")


def _same_payload(m, got, want):
    if m.sym:
        from vf.symex.models import SBytes
        return bool(z3.is_true(z3.simplify(SBytes.lift(got).eq(want))))
    return bytes(got) == bytes(want)


def h_vectors(m):
    """validation traces: digests of real hashlib for the advertised names on a sample text"""
    mod = m.mod(SP)
    for name in ("md5", "sha256", "MD5", "SHA-256", "sha1", "sha512"):
        want = hashlib.new({"MD5": "md5", "SHA-256": "sha256"}.get(name, name), '"int"'.encode()).hexdigest()
        m.prove("vectors.hashlib", mod.fingerprint('"int"', name) == want, name)


def run(run, tier):
    r = E1Runner(run)
    E2E_MAX[0] = 2 if tier == "thorough" else 1
    r.check(h_init, "rabin", expect=["init"])
    tmo = 120000 if tier == "quick" else 600000
    bud = 150 if tier == "quick" else 1200
    r.check(h_step, "rabin", expect=["step"], timeout_ms=tmo, budget_s=bud)
    r.check(h_end2end, "rabin", expect=["end2end"], timeout_ms=tmo, budget_s=bud)
    r.check(h_dispatch, "fingerprint", expect=["dispatch.unknown_raises", "dispatch.rabin", "dispatch.hashlib"])
    r.check(h_twice, "rabin", expect=["second_call"], timeout_ms=tmo, budget_s=bud)
    r.check(h_dispatch_twice, "fingerprint", expect=["dispatch.second_call.unknown_raises"], budget_s=bud)
    TEXT_CAP[0] = 4 if tier == "thorough" else 3
    r.check(h_dispatch_text, "fingerprint", expect=["dispatch.payload_is_utf8_of_text"])
    run.bounds += ["rabin: init + one step from an arbitrary 64-bit state and arbitrary byte + output formatting "
                   "(induction over the input length: every length); end-to-end for |data| <= %d symbolic bytes" % E2E_MAX[0],
                   "dispatch: the algorithm name is a symbolic ASCII string of at most %d characters (characters 1..127), so every "
                   "advertised name and every unknown name within that bound; the advertised set is recomputed independently "
                   "(hashlib.algorithms_guaranteed + Java spellings + CRC-64-AVRO); text is an arbitrary string (opaque, UTF-8 "
                   "encoding uninterpreted)" % NAME_CAP[0]]
    run.bounds += ["history: two consecutive calls of rabin_fingerprint on arbitrary byte strings of length %d each" % TWICE_LEN[0]]
    run.bounds += ["payload: text a symbolic ASCII string of at most %d characters (every character 1..127, so leading/trailing "
                   "whitespace and control characters), algorithms CRC-64-AVRO, sha256, MD5" % TEXT_CAP[0]]
    run.outside += ["algorithm names longer than %d characters or containing non-ASCII characters / NUL" % NAME_CAP[0],
                    "digest internals (OpenSSL/hashlib C code): hashlib.new is a recording stub",
                    "shake_* variable-length digests: hexdigest() needs a length; excluded by the property"]
    run.assumptions += ["loop cut: the state variable `result` of rabin_fingerprint is havocked right before its loop "
                        "(AST rewrite of the current source); soundness of the induction needs the loop body to depend on "
                        "earlier iterations only through `result`, which holds syntactically (checked: the only other "
                        "variables assigned in the loop are the loop target)."]
