"""C15: the JSON codec emits the specification's JSON encoding, round-trips and agrees with the binary codec."""
import copy
import io
import json

from vf import rt, family, shape
from vf.oracles import ir as IR, codec, jsonspec
from vf.shape import OutOfDomain
from . import l2
from .l2 import _same

import fastavro.json_write as JW
import fastavro.json_read as JR
import fastavro._write_py as W
import fastavro._read_py as R
import fastavro.io.json_encoder as JE
import fastavro.io.json_decoder as JD

SCHEMAS = ["rec_defaults4", "rec_defaults5", "rec_defaults6", "rec_defaults7", "rec_dictnull", "rec_defaults3", "prim_int", "prim_string", "prim_null", "prim_bytes", "prim_double", "prim_boolean", "enum", "fixed", "rec_flat",
           "rec_empty", "rec_floats", "rec_defaults", "rec_defaults2", "pair_array_int", "pair_array_record", "pair_map_long",
           "pair_map_record", "pair_array_union", "pair_map_union", "pair_field_union", "pair_field_map", "pair_field_array",
           "union_prims", "union_two_recs", "union_named_mix", "union_arr_map", "chain_arr_arr", "chain_rec_union_rec_arr",
           "ref_after_def", "ns_inherit", "ns_dotted", "rec_list", "rec_tree", "rec_mutual", "map_key_is_field", "err_type", "err_nested"]
QUICK = ["err_type", "err_nested", "prim_int", "prim_bytes", "enum", "fixed", "rec_flat", "rec_empty", "rec_defaults", "rec_defaults4", "rec_defaults5", "rec_defaults6", "rec_defaults7", "rec_dictnull", "pair_array_record", "pair_map_long",
         "pair_field_union", "union_two_recs", "union_named_mix", "ref_after_def", "ns_inherit", "rec_list", "rec_tree",
         "map_key_is_field", "pair_map_union"]

_native_dumps = rt.untraced(json.dumps)
_native_loads = rt.untraced(json.loads)


class _J:
    """json with concrete arguments runs natively (leaves come from pools, so every record is concrete once the
    structural choices are made)"""
    dumps = staticmethod(_native_dumps)
    loads = staticmethod(_native_loads)


if rt.tokmode():
    JE.json = _J
    JD.json = _J

_C = {}


def case(name, thorough=False):
    key = (name, thorough)
    if key in _C:
        return _C[key]
    c = dict(l2.case(name, thorough))
    c["cfg"] = c["cfg"].but(K=2 if thorough else 1, ints="pool", strs="pool", floats="pool", bytes="pool", npool=3 if thorough else 2)
    _C[key] = c
    return c


def _write(c, recs, wut=True, parsed=True):
    fo = io.StringIO()
    JW.json_writer(fo, c["parsed"] if parsed else c["schema"], recs, write_union_type=wut)
    return fo.getvalue()


def ob_json(c, v, two, parsed):
    """text = spec JSON encoding, one document per record; json_reader returns the records; equals the binary decode"""
    try:
        d = shape.build(c["ir"], c["names"], v, c["cfg"])
    except OutOfDomain:
        return True, "out of domain"
    recs = [d, d] if two else [d]
    try:
        want = [jsonspec.to_json(c["ir"], r, c["names"]) for r in recs]
        norm = [codec.normalise(c["ir"], r, c["names"], lambda x: x) for r in recs]
    except codec.Silent:
        return True, "statement silent"
    try:
        text = _write(c, recs, True, parsed)
    except Exception as e:
        return False, f"json_writer raised {type(e).__name__}: {e} for {recs!r}"
    lines = [l for l in text.split("\n")] if text != "" else []
    try:
        got = [_native_loads(l) for l in lines]
    except Exception as e:
        return False, f"json_writer output is not one JSON document per line: {text!r}"
    if got != want:
        return False, f"json_writer wrote {got!r}, the specification's JSON encoding is {want!r} (data {recs!r})"
    try:
        back = list(JR.json_reader(io.StringIO(text), c["parsed"] if parsed else c["schema"]))
    except Exception as e:
        return False, f"json_reader raised {type(e).__name__}: {e} on {text!r}"
    if not _same_by_value(back, norm):
        return False, f"json_reader returned {back!r}, written {norm!r} (text {text!r})"
    return True, ""


def ob_count(name, n):
    """n records (concrete) through json_writer/json_reader: used to probe size thresholds found in the source"""
    c = case(name) if "case" in globals() else l2.case(name)
    d = shape.build(c["ir"], c["names"], shape.samples(c["ir"], c["names"], c["cfg"], 1, n=1)[0], c["cfg"])
    recs = [d] * n
    want = [jsonspec.to_json(c["ir"], r, c["names"]) for r in recs]
    try:
        text = _write(c, recs, True, True)
    except Exception as e:
        return False, f"json_writer raised {type(e).__name__}: {e} for {n} records"
    lines = text.split("\n") if text != "" else []
    try:
        got = [_native_loads(l) for l in lines]
    except Exception:
        return False, f"json_writer output for {n} records is not one JSON document per line (lines: {len(lines)})"
    if got != want:
        return False, f"json_writer wrote {len(got)} documents for {n} records, or documents that differ from the specification's"
    try:
        back = list(JR.json_reader(io.StringIO(text), c["parsed"]))
    except Exception as e:
        return False, f"json_reader raised {type(e).__name__}: {e} on the text of {n} records"
    if len(back) != n:
        return False, f"json_reader returned {len(back)} records for {n} written"
    return True, ""


def _same_by_value(a, b):
    """numbers compared by value (JSON does not distinguish 1 and 1.0)"""
    if isinstance(a, bool) or isinstance(b, bool):
        return a is b or (isinstance(a, bool) and isinstance(b, bool) and a == b)
    if isinstance(a, (int, float)) and isinstance(b, (int, float)):
        return a == b
    if isinstance(a, dict) and isinstance(b, dict):
        return set(a) == set(b) and all(_same_by_value(a[k], b[k]) for k in a)
    if isinstance(a, list) and isinstance(b, list):
        return len(a) == len(b) and all(_same_by_value(x, y) for x, y in zip(a, b))
    return type(a) == type(b) and a == b


def ob_plain(c, v):
    """write_union_type=False: the same encoding without the union wrappers"""
    try:
        d = shape.build(c["ir"], c["names"], v, c["cfg"])
    except OutOfDomain:
        return True, "out of domain"
    try:
        want = jsonspec.to_json(c["ir"], d, c["names"], union_type=False)
    except codec.Silent:
        return True, "statement silent"
    try:
        text = _write(c, [d], False)
        got = _native_loads(text)
    except Exception as e:
        return False, f"json_writer(write_union_type=False) raised {type(e).__name__}: {e} for {d!r}"
    if got != want:
        return False, f"json_writer(write_union_type=False) wrote {got!r}, expected {want!r}"
    return True, ""


def _strip_defaults(node, j, names, mask, counter):
    """remove from JSON value j the keys of defaulted record fields selected by mask bits (pre-order)"""
    n = IR.deref(node, names)
    k = n["k"]
    if k == "record" and isinstance(j, dict):
        out = {}
        for f in n["fields"]:
            if f["name"] not in j:
                continue
            if f["has_default"]:
                bit = counter[0]
                counter[0] += 1
                if (mask >> bit) & 1:
                    continue
            out[f["name"]] = _strip_defaults(f["t"], j[f["name"]], names, mask, counter)
        return out
    if k == "array" and isinstance(j, list):
        return [_strip_defaults(n["items"], x, names, mask, counter) for x in j]
    if k == "map" and isinstance(j, dict):
        return {key: _strip_defaults(n["values"], x, names, mask, counter) for key, x in j.items()}
    if k == "union" and isinstance(j, dict) and len(j) == 1:
        (bn, inner), = j.items()
        for b in n["branches"]:
            if IR.branch_name(b, names) == bn:
                return {bn: _strip_defaults(b, inner, names, mask, counter)}
    return j


def ob_defaults(c, v, mask):
    """fields absent from the JSON text take their schema defaults"""
    try:
        d = shape.build(c["ir"], c["names"], v, c["cfg"])
    except OutOfDomain:
        return True, "out of domain"
    if not (0 <= mask < 32):
        return True, "out of domain"
    try:
        j = jsonspec.to_json(c["ir"], d, c["names"])
    except codec.Silent:
        return True, "statement silent"
    counter = [0]
    j2 = _strip_defaults(c["ir"], j, c["names"], mask, counter)
    if mask >= (1 << counter[0]):
        return True, "out of domain"
    # expected: the datum with those fields replaced by their defaults = decode of the stripped JSON by the rules
    want = _decode_json(c["ir"], j2, c["names"])
    text = _native_dumps(j2)
    text = text + "\n" + text  # the same document twice: defaults must be available for every record
    sch = c["parsed"] if (mask & 1) else copy.deepcopy(c["schema"])
    before = _native_dumps(_plain(sch))
    try:
        back = list(JR.json_reader(io.StringIO(text), sch))
    except Exception as e:
        return False, f"json_reader raised {type(e).__name__}: {e} on {text!r} (defaulted keys removed)"
    if not _same_by_value(back, [want, want]):
        return False, f"json_reader returned {back!r}, expected {[want, want]!r} for {text!r}"
    if _native_dumps(_plain(sch)) != before:
        return False, f"json_reader modified the schema object it was given (defaults consumed) reading {text!r}"
    return True, ""


def _plain(s):
    if isinstance(s, list):
        return [_plain(x) for x in s]
    if isinstance(s, dict):
        return {k: _plain(v) for k, v in s.items() if k != "__named_schemas"}
    return s


def _decode_json(node, j, names):
    """independent JSON decoder (absent record keys -> schema default, given in JSON form)"""
    n = IR.deref(node, names)
    k = n["k"]
    if k in ("null", "boolean", "int", "long", "string", "enum"):
        return j
    if k in ("float", "double"):
        return j
    if k in ("bytes", "fixed"):
        return j.encode("iso-8859-1")
    if k == "array":
        return [_decode_json(n["items"], x, names) for x in j]
    if k == "map":
        return {key: _decode_json(n["values"], x, names) for key, x in j.items()}
    if k == "record":
        out = {}
        for f in n["fields"]:
            if f["name"] in j:
                out[f["name"]] = _decode_json(f["t"], j[f["name"]], names)
            else:
                out[f["name"]] = _decode_default(f["t"], f["default"], names)
        return out
    if k == "union":
        if j is None:
            return None
        (bn, inner), = j.items()
        for b in n["branches"]:
            if IR.branch_name(b, names) == bn:
                return _decode_json(b, inner, names)
        raise ValueError(bn)
    raise AssertionError(k)


def _decode_default(node, dflt, names):
    """a field default is given in the schema's JSON form: for a union it is a value of the first branch"""
    n = IR.deref(node, names)
    if n["k"] == "union":
        return _decode_default(n["branches"][0], dflt, names) if dflt is not None else None
    if n["k"] in ("bytes", "fixed") and isinstance(dflt, str):
        return dflt.encode("iso-8859-1")
    if n["k"] == "record" and isinstance(dflt, dict):
        return {f["name"]: _decode_default(f["t"], dflt.get(f["name"], f.get("default")), names) for f in n["fields"]}
    return dflt


def _recursive(c):
    """does any named type (transitively) refer to itself?"""
    names = c["names"]

    def refs(n, acc):
        k = n["k"]
        if k == "ref":
            acc.add(n["name"])
        elif k == "array":
            refs(n["items"], acc)
        elif k == "map":
            refs(n["values"], acc)
        elif k == "union":
            for b in n["branches"]:
                refs(b, acc)
        elif k == "record":
            for f in n["fields"]:
                refs(f["t"], acc)
        return acc
    direct = {nm: refs(d, set()) - ({nm} if False else set()) for nm, d in names.items()}
    for start in names:
        seen, todo = set(), list(direct[start])
        while todo:
            x = todo.pop()
            if x == start:
                return True
            if x in seen or x not in direct:
                continue
            seen.add(x)
            todo.extend(direct[x])
    return False


def _key(kind, name, c):
    if _recursive(c):
        return f"{kind}:recursive-schema"
    if any(d["k"] == "record" and not d["fields"] for d in c["names"].values()):
        return f"{kind}:record-without-fields"
    return f"{kind}:{name}"


def harnesses(tier, seed):
    from vf.ch import Harness
    th = tier == "thorough"
    hs = []
    for name in (SCHEMAS if th else QUICK):
        c = case(name, th)
        a = shape.ann(c["ir"], c["names"], c["cfg"])
        setup = f"C = case({name!r}, {th})"
        sv = shape.samples(c["ir"], c["names"], c["cfg"], seed + 19, n=2)
        call = "ob_json(C, v, two, parsed)"
        hs.append(Harness(f"json.{name}", "props.l15", f"v: {a}, two: bool, parsed: bool", call + "[0]", replay_call=call,
                          setup=setup, what=f"JSON codec on {name}", samples=[(x, i == 1, i == 0) for i, x in enumerate(sv)],
                          key=_key("json", name, c)))
        if has_kind(c, "union"):
            call = "ob_plain(C, v)"
            hs.append(Harness(f"json_plain.{name}", "props.l15", f"v: {a}", call + "[0]", replay_call=call, setup=setup,
                              what=f"JSON without union wrappers on {name}", samples=[(x,) for x in sv], key=_key("json", name, c)))
        if has_defaults(c):
            call = "ob_defaults(C, v, mask)"
            hs.append(Harness(f"json_defaults.{name}", "props.l15", f"v: {a}, mask: int", call + "[0]", replay_call=call,
                              setup=setup, what=f"JSON defaults on {name}", samples=[(x, 1) for x in sv],
                              key=_key("json_defaults", name, c)))
    return hs


def has_kind(c, kind):
    from .l3 import _has
    return _has(c["ir"], c["names"], (kind,))


def has_defaults(c):
    return any(any(f["has_default"] for f in d.get("fields", [])) for d in c["names"].values())
