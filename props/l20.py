"""C20: generate_one / generate_many always produce data that conforms to the schema.
The library's random source is replaced by a stub whose draws are solver variables."""
import builtins
import copy

from vf import rt, family, shape
from vf.oracles import ir as IR, conform, codec
from . import l2, l4
from .l2 import _same

import fastavro.utils as U
import fastavro._validation_py as V
import fastavro._write_py as W
import fastavro._read_py as R

SCHEMAS = ["prim_int", "prim_long", "prim_string", "prim_bytes", "prim_double", "prim_float", "prim_boolean", "prim_null",
           "enum", "fixed", "rec_flat", "rec_floats", "rec_empty", "rec_defaults", "rec_defaults2", "union_prims", "union_named_mix",
           "union_two_recs", "union_arr_map", "pair_array_int", "pair_map_long", "pair_array_record", "pair_map_union",
           "pair_field_union", "pair_union_record", "chain_arr_union_map", "chain_rec_union_rec_arr", "ref_after_def",
           "ns_inherit", "ns_dotted", "ns_switch", "ns_null", "err_type", "rec_dictnull", "map_key_is_field", "logical_noscale",
           "rec_two_children", "err_nested", "rec_defaults_bytes", "rec_defaults7"]
QUICK = ["prim_long", "prim_bytes", "enum", "fixed", "rec_flat", "rec_defaults", "union_prims", "union_named_mix",
         "pair_array_int", "pair_map_union", "pair_field_union", "ref_after_def", "ns_inherit", "chain_rec_union_rec_arr",
         "rec_empty", "ns_null", "logical_noscale", "rec_defaults_bytes"]
LOGICAL = {"logical_noscale"}
CUT = 2  # gen_data builds arrays/maps with `for _ in range(10)`; the harness cuts those loops to CUT iterations


class Draws:
    """stub for the `random` module inside fastavro.utils: every draw is the next solver variable"""

    def __init__(self, xs):
        self.xs, self.i = list(xs), 0
        self.exhausted = False

    def _next(self):
        if self.i >= len(self.xs):
            self.exhausted = True
            return 0
        self.i += 1
        return self.xs[self.i - 1]

    def randint(self, a, b):
        return a + self._next() % (b - a + 1)

    # Only randint draws (branch choices, enum indices, booleans, integer leaves) are solver variables.  The
    # content of generated floats, bytes and strings never steers gen_data; it is taken from a deterministic
    # counter (distinct calls give distinct strings, so map keys differ as they do with real randomness).
    def random(self):
        self.k = getattr(self, "k", 0) + 1
        return [0.0, 0.5, 0.999999][self.k % 3]

    def getrandbits(self, k):
        self.k = getattr(self, "k", 0) + 1
        return (0x5AA5C33C0FF0 * self.k + 0xFF) % (1 << k)

    def choices(self, population, k=1):
        self.k = getattr(self, "k", 0) + 1
        return [population[(self.k * 7 + t) % len(population)] for t in range(k)]


class _UUID:
    @staticmethod
    def uuid4():
        import uuid
        return uuid.UUID(int=0x12345678123456781234567812345678)


_deepcopy_native = rt.untraced(copy.deepcopy)
_freeze_native = rt.untraced(lambda s: repr(_plain(s)))


def _plain(s):
    if isinstance(s, list):
        return [_plain(x) for x in s]
    if isinstance(s, dict):
        return {k: (_plain(v) if k != "__named_schemas" else sorted(v)) for k, v in s.items()}
    return s


def ob_generate(c, n, xs, parsed=False, container=False):
    if not (0 <= n <= 2):
        return True, "out of domain"
    d = Draws(xs)
    saved = (U.random, U.__dict__.get("range"), U.uuid)
    U.random = d
    U.range = lambda k: builtins.range(min(k, CUT))
    U.uuid = _UUID
    # the caller's schema object: raw, or parsed once and reused (a private copy per call, so that a generator
    # that edits it cannot leak into other paths of the exploration)
    sch = _deepcopy_native(c["parsed"] if parsed else c["schema"])
    sch_before = _freeze_native(sch)
    try:
        try:
            vals = list(U.generate_many(sch, n))
        except Exception as e:
            return False, f"generate_many raised {type(e).__name__}: {e}"
    finally:
        U.random, U.uuid = saved[0], saved[2]
        if saved[1] is None:
            del U.range
        else:
            U.range = saved[1]
    if d.exhausted:
        return True, "out of domain (more draws than provided)"
    if len(vals) != n:
        return False, f"generate_many({n}) yielded {len(vals)} values"
    for v in vals:
        if not conform.conforms(c["ir"], v, c["names"]):
            return False, f"generated value {v!r} does not conform to the schema (independent predicate)"
        try:
            if not V.validate(v, c["parsed"], raise_errors=False):
                return False, f"generated value {v!r} fails validate"
            fo = rt.new_io()
            W.schemaless_writer(fo, c["parsed"], v)
            rt.rewind(fo)
            back = R.schemaless_reader(fo, c["parsed"])
        except Exception as e:
            return False, f"generated value {v!r}: {type(e).__name__}: {e}"
        if c["name"] in LOGICAL:
            continue  # read-back converts to decimal/datetime objects: the representation is C16's subject
        try:
            want = codec.normalise(c["ir"], v, c["names"], rt.f32)
        except codec.Silent:
            continue
        if not _same(back, want):
            return False, f"generated value {v!r} read back as {back!r}"
    # the container writer accepts the values under the very schema object the generator was given, and the file
    # can be read back on its own
    if vals and container:
        out, store = l4.seq_out()
        try:
            W.writer(out, sch, vals, sync_marker=b"0123456789abcdef")
            back = list(R.reader(l4.seq_in(store)))
        except Exception as e:
            return False, (f"container round trip of generated values under the schema object given to the generator "
                           f"({'parsed' if parsed else 'raw'}): {type(e).__name__}: {e}")
        try:
            want = [codec.normalise(c["ir"], v, c["names"], rt.f32) for v in vals]
        except codec.Silent:
            want = None
        if want is not None and c["name"] not in LOGICAL and not _same(back, want):
            return False, f"container file of generated values {vals!r} reads back as {back!r}"
    if _freeze_native(sch) != sch_before:
        return False, f"generate_many modified the schema object it was given ({'parsed' if parsed else 'raw'} form)"
    return True, ""


TWIN_A = {"type": "record", "name": "weather.Reading", "fields": [
    {"name": "unit", "type": {"type": "enum", "name": "weather.Unit", "symbols": ["C", "F"]}},
    {"name": "v", "type": "int"}, {"name": "again", "type": "weather.Unit"}]}
TWIN_B = {"type": "record", "name": "weather.Reading", "fields": [
    {"name": "station", "type": "string"},
    {"name": "unit", "type": {"type": "enum", "name": "weather.Unit", "symbols": ["K", "R", "X"]}},
    {"name": "again", "type": "weather.Unit"}, {"name": "hist", "type": {"type": "array", "items": "weather.Unit"}}]}


def ob_interleaved(xs, n):
    """generate_many is lazy: two generators for two schemas that define the same type names differently are alive at
    once and are consumed alternately; every value must conform to the schema of its own generator"""
    if not (1 <= n <= CUT):
        return True, "out of domain"
    d = Draws(xs)
    saved = (U.random, U.__dict__.get("range"), U.uuid)
    U.random = d
    U.range = lambda k: builtins.range(min(k, CUT))
    U.uuid = _UUID
    out = []
    try:
        try:
            ga, gb = U.generate_many(TWIN_A, n), U.generate_many(TWIN_B, n)
            for _ in range(n):
                out.append(("A", next(ga)))
                out.append(("B", next(gb)))
        except Exception as e:
            return False, f"interleaved generators raised {type(e).__name__}: {e}"
    finally:
        U.random, U.uuid = saved[0], saved[2]
        if saved[1] is None:
            del U.range
        else:
            U.range = saved[1]
    if d.exhausted:
        return True, "out of domain"
    for who, v in out:
        sch = TWIN_A if who == "A" else TWIN_B
        try:
            ok = V.validate(v, sch, raise_errors=False)
        except Exception as e:
            return False, f"value {v!r} of generator {who}: validate raised {type(e).__name__}: {e}"
        if not ok:
            return False, f"value {v!r} produced by the generator for schema {who} does not conform to that schema (values so far {out!r})"
    return True, ""


def ob_chain(n):
    """generate_one on a non-recursive schema whose types refer to each other by name along a chain of n levels
    (concrete: used to probe depth thresholds found in the generator's source)"""
    fields0 = [{"name": "v", "type": "int"}]
    sch = {"type": "record", "name": "chain.Level0", "fields": fields0}
    top = {"type": "record", "name": "chain.Top", "fields": [{"name": "l0", "type": sch}]}
    for i in range(1, n + 1):
        top["fields"].append({"name": f"l{i}", "type": {"type": "record", "name": f"chain.Level{i}", "fields": [
            {"name": "prev", "type": f"chain.Level{i - 1}"}, {"name": "v", "type": "int"}]}})
    try:
        v = U.generate_one(top)
    except Exception as e:
        return False, f"generate_one raised {type(e).__name__}: {e} on a chain of {n} by-name levels"
    try:
        ok = V.validate(v, top, raise_errors=False)
    except Exception as e:
        return False, f"validate raised {type(e).__name__}: {e} on the value generated for a chain of {n} by-name levels"
    if not ok:
        return False, f"the value generated for a chain of {n} by-name levels does not conform to the schema"
    return True, ""


def ob_one(c, xs):
    d = Draws(xs)
    saved = (U.random, U.__dict__.get("range"), U.uuid)
    U.random = d
    U.range = lambda k: builtins.range(min(k, CUT))
    U.uuid = _UUID
    try:
        try:
            v = U.generate_one(c["schema"])
        except Exception as e:
            return False, f"generate_one raised {type(e).__name__}: {e}"
    finally:
        U.random, U.uuid = saved[0], saved[2]
        if saved[1] is None:
            del U.range
        else:
            U.range = saved[1]
    if d.exhausted:
        return True, "out of domain"
    if not conform.conforms(c["ir"], v, c["names"]):
        return False, f"generate_one returned {v!r}, which does not conform"
    return True, ""


def harnesses(tier, seed):
    from vf.ch import Harness
    th = tier == "thorough"
    hs = []
    for name in (SCHEMAS if th else QUICK):
        setup = f"from props.l2 import case\nC = case({name!r}, {th})"
        nd = 12 if th else 8
        tp = "Tuple[" + ", ".join(["int"] * nd) + "]"
        import zlib
        par = bool((zlib.crc32(name.encode()) + seed) & 1)
        pv = "parsed" if th else str(par)
        pp = ", parsed: bool" if th else ""
        ex = (lambda b: (b,)) if th else (lambda b: ())
        call = f"ob_generate(C, n, xs, {pv})"
        s1 = tuple(range(3, 3 + nd))
        s2 = tuple((7 * i + seed) % 1000 for i in range(nd))
        hs.append(Harness(f"generate_many.{name}", "props.l20", f"n: int, xs: {tp}{pp}", call + "[0]", replay_call=call, setup=setup,
                          what=f"generate_many on {name}", samples=[(1, s1) + ex(False), (2, s2) + ex(True), (0, s1) + ex(True)],
                          key=f"generate:{name}"))
        # container writer/reader on the generated values under the very schema object given to the generator
        # (raw or parsed once and reused): fewer symbolic draws, both schema forms
        nc = 2
        tc = "Tuple[" + ", ".join(["int"] * nc) + "]"
        rest = tuple((5 * i + 1) % 7 for i in range(nd - nc))
        call = f"ob_generate(C, 1, tuple(xs) + {rest!r}, parsed, True)"
        hs.append(Harness(f"generate_container.{name}", "props.l20", f"xs: {tc}, parsed: bool", call + "[0]", replay_call=call, setup=setup,
                          what=f"container round trip of generated values on {name}",
                          samples=[(s1[:nc], False), (s2[:nc], True)], key=f"generate:{name}"))
    nd = 6
    tp = "Tuple[" + ", ".join(["int"] * nd) + "]"
    call = "ob_interleaved(tuple(xs) + (1, 0, 2, 1, 0, 2, 1, 0, 2, 1, 0, 2, 1, 0, 2, 1, 0, 2, 1, 0), n)"
    hs.append(Harness("generate_many.interleaved_generators", "props.l20", f"xs: {tp}, n: int", call + "[0]", replay_call=call,
                      what="two lazy generators consumed alternately", samples=[(tuple(range(nd)), 2), (tuple(range(5, 5 + nd)), 1)],
                      key="generate:interleaved"))
    return hs
