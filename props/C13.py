"""C13 - canonical form equals the spec transformation; invariant under cosmetic edits."""
from vf import ch, family
from . import l2, l13

APACHE = [  # reference vectors (Apache Avro test suite / specification examples): validation traces for the oracle
    ('"int"', '"int"'), ({"type": "int"}, '"int"'),
    ({"type": "fixed", "name": "foo", "size": 15}, '{"name":"foo","type":"fixed","size":15}'),
    ({"type": "record", "name": "foo", "namespace": "x.y", "fields": [{"name": "f1", "type": "boolean"}]},
     '{"name":"x.y.foo","type":"record","fields":[{"name":"f1","type":"boolean"}]}'),
    ({"type": "enum", "name": "foo", "namespace": "x.y", "doc": "d", "symbols": ["A1"]},
     '{"name":"x.y.foo","type":"enum","symbols":["A1"]}'),
    ({"type": "array", "items": "long"}, '{"type":"array","items":"long"}'),
    ({"type": "map", "values": {"type": "enum", "name": "foo", "symbols": ["A1"]}},
     '{"type":"map","values":{"name":"foo","type":"enum","symbols":["A1"]}}'),
    (["null", "string"], '["null","string"]'),
]


def run(run, tier):
    import json
    from vf.oracles import ir as IR, pcf as PCF
    n = 0
    for sch, want in APACHE:
        if isinstance(sch, str):
            sch = json.loads(sch)
        node = IR.to_ir(sch, "", {})
        if PCF.pcf(node) != want:
            run.internal_errors.append(f"oracle disagrees with reference vector {want}")
        n += 1
    for name in (l13.SCHEMAS if tier == "thorough" else l13.QUICK):
        ok, detail = l13.ob_spec_text(name)
        n += 1
        run.obligation(f"text.{name}", "discharged" if ok else "violated", detail or "canonical text equals the oracle's; fixed point",
                       paths=1, queries=0)
        if not ok:
            text = (f"import sys\nsys.path[:0]=['/verif','/repo']\nfrom props.l13 import ob_spec_text\nok, d = ob_spec_text({name!r})\n"
                    "print('REPRODUCED' if not ok else 'not reproduced', d)\nsys.exit(0 if ok else 1)\n")
            run.violation(f"text.{name}", f"pcf-text:{name}", detail, text)
    run.validated += n
    hs = l13.harnesses(tier, run.seed)
    ch.run_harnesses(run, "C13", hs, timeout=150 if tier == "quick" else 500)
    l2.describe(run, tier)
    run.bounds += ["canonical text: schemas of F (concrete evaluation against the independent canonicaliser, plus fixed point); "
                   "pooled-name templates with symbolic name/namespace selection; cosmetic edits: one or two edits of 8 kinds "
                   "(doc, aliases, default, order, custom attribute, logicalType, attribute order, dotted vs namespace+name) at symbolic "
                   "positions; same-encoding: symbolic datum written under the schema and under its canonical form"]
    run.outside += ["names needing JSON string escapes", "more than two simultaneous cosmetic edits"]
