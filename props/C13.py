"""C13 - canonical form equals the spec transformation; invariant under cosmetic edits."""
from vf import ch, family
from . import l2, l13

APACHE = [  # reference vectors (Apache Avro test suite / specification examples): validation traces for the oracle
    ('"int"', '"int"'), ({"type": "int"}, '"int"'),
    ({"type": "fixed", "name": "foo", "size": 15}, '{"name":"foo","type":"fixed","size":15}'),
    ({"type": "record", "name": "foo", "namespace": "x.y", "fields": [{"name": "f1", "type": "boolean"}]},
     '{"name":"x.y.foo","type":"record","fields":[{"name":"f1","type":"boolean"}]}'),
    ({"type": "enum", "name": "foo", "namespace": "x.y", "doc": "d", "symbols": ["A1"]},
     '{"name":"x.y.foo","type":"enum","symbols":["A1"]}'),
    ({"type": "array", "items": "long"}, '{"type":"array","items":"long"}'),
    ({"type": "map", "values": {"type": "enum", "name": "foo", "symbols": ["A1"]}},
     '{"type":"map","values":{"name":"foo","type":"enum","symbols":["A1"]}}'),
    (["null", "string"], '["null","string"]'),
]


def run(run, tier):
    import json
    from vf.oracles import ir as IR, pcf as PCF
    n = 0
    for sch, want in APACHE:
        if isinstance(sch, str):
            sch = json.loads(sch)
        node = IR.to_ir(sch, "", {})
        if PCF.pcf(node) != want:
            run.internal_errors.append(f"oracle disagrees with reference vector {want}")
        n += 1
    for name in (l13.SCHEMAS if tier == "thorough" else l13.QUICK):
        ok, detail = l13.ob_spec_text(name)
        n += 1
        if ok:
            run.obligation(f"text.{name}", "discharged", "canonical text equals the oracle's; fixed point", paths=1, queries=0)
        else:
            text = (f"import sys, os\nsys.path[:0]=[os.environ.get('VF_ROOT','/verif'), os.environ.get('VF_REPO','/repo')]\nfrom props.l13 import ob_spec_text\nok, d = ob_spec_text({name!r})\n"
                    "print('REPRODUCED' if not ok else 'not reproduced', d)\nsys.exit(0 if ok else 1)\n")
            v = run.violation(f"text.{name}", f"pcf-text:{name}", detail, text)
            run.obligation(f"text.{name}", v, detail, paths=1, queries=0)
    run.validated += n
    # dotted spelling vs namespace + name at character level (E1 over the real schema_name, which supplies the
    # full names the canonical writer prints)
    from vf.e1 import E1Runner
    from . import n11
    sp = [x for x in n11.specs(tier) if x["prefix"].endswith((".spelling", ".schema_name", ".reference", ".def_record"))]
    for x in sp:
        x["prefix"] = x["prefix"].replace("names.char", "fullnames.char")
    E1Runner(run).check_many(sp, workers=4)
    run.bounds.append(n11.BOUNDS % (n11.CAP_NAME[0], n11.CAP_NS[0], *n11.CAP_DEF))
    hs = l13.harnesses(tier, run.seed)
    ch.run_harnesses(run, "C13", hs, timeout=150 if tier == "quick" else 500)
    l2.describe(run, tier)
    run.bounds += ["canonical text: schemas of F (concrete evaluation against the independent canonicaliser, plus fixed point); "
                   "pooled-name templates with symbolic name/namespace selection; cosmetic edits: one or two edits of 8 kinds "
                   "(doc, aliases, default, order, custom attribute, logicalType, attribute order, dotted vs namespace+name) at symbolic "
                   "positions; same-encoding: symbolic datum written under the schema and under its canonical form"]
    run.outside += ["names needing JSON string escapes", "more than two simultaneous cosmetic edits"]
