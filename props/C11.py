"""C11 - parse_schema accepts valid schemas, names per the specification, rejects ill-formed ones."""
from vf import ch, family
from . import l2, l11, n11


def run(run, tier):
    # every schema of the family is valid by the oracle and must parse with the oracle's names (concrete walk:
    # these are validation traces of the oracle and reachability witnesses, not the deciding step)
    n = 0
    for name, tags, sch in family.family():
        ok, detail = l11.ob_family(name)
        n += 1
        if not ok:
            text = ("import sys, os\nsys.path[:0] = [os.environ.get('VF_ROOT', '/verif'), os.environ.get('VF_REPO', '/repo')]\n"
                    f"from props.l11 import ob_family\nok, d = ob_family({name!r})\n"
                    "print('REPRODUCED' if not ok else 'not reproduced', d)\nsys.exit(0 if ok else 1)\n")
            v = run.violation(f"family.{name}", f"family:{name}", detail, text)
            run.obligation(f"family.{name}", v, detail, paths=1)
            if v == "inconclusive":
                run.internal_errors.append(f"family schema {name}: {detail}")
    run.validated += n
    # character-level naming rules (E1, bounded symbolic strings over the real schema_name/_parse_schema)
    from vf.e1 import E1Runner
    E1Runner(run).check_many(n11.specs(tier), workers=7)
    run.bounds.append(n11.BOUNDS % (n11.CAP_NAME[0], n11.CAP_NS[0], *n11.CAP_DEF))
    hs = l11.harnesses(tier, run.seed)
    ch.run_harnesses(run, "C11", hs, timeout=200 if tier == "quick" else 600)
    l2.describe(run, tier)
    run.bounds += ["names: three nested named types (record > record > enum/fixed, optionally through an array) whose names come from "
                   "{simple, one dot, two dots} and namespaces from {absent, empty, one segment, two segments} (symbolic choice, "
                   "explored two levels at a time, 432 combinations per harness) with references spelled {full, simple, undefined} (symbolic)",
                   f"ill-forming mutations: {sum(len(l11.mutants(b)) for b in l11.BASES)} labelled single mutations (symbolic index) of 3 base "
                   f"schemas; defaults: {len(l11.BASES['defaults']['fields'])} field types x {len(l11.DEFAULT_VALUES)} JSON default kinds"]
    run.outside += ["names longer than the stated character bounds or with non-ASCII characters; whether a name is a well-formed identifier (not among the listed rejection rules)", "decimal precision 0 and boolean "
                    "precision/scale (not in the property's list: not asserted)", "string defaults for float/double (NaN spellings)"]
