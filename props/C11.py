"""C11 - parse_schema accepts valid schemas, names per the specification, rejects ill-formed ones."""
from vf import ch, family
from . import l2, l11


def run(run, tier):
    # every schema of the family is valid by the oracle and must parse with the oracle's names (concrete walk:
    # these are validation traces of the oracle and reachability witnesses, not the deciding step)
    n = 0
    for name, tags, sch in family.family():
        ok, detail = l11.ob_family(name)
        n += 1
        if not ok:
            run.internal_errors.append(f"family schema {name}: {detail}")
    run.validated += n
    hs = l11.harnesses(tier, run.seed)
    ch.run_harnesses(run, "C11", hs, timeout=200 if tier == "quick" else 600)
    l2.describe(run, tier)
    run.bounds += ["names: three nested named types (record > record > enum/fixed, optionally through an array) whose names come from "
                   "{simple, one dot, two dots} and namespaces from {absent, empty, one segment, two segments} (symbolic choice, "
                   "explored two levels at a time, 432 combinations per harness) with references spelled {full, simple, undefined} (symbolic)",
                   f"ill-forming mutations: {sum(len(l11.mutants(b)) for b in l11.BASES)} labelled single mutations (symbolic index) of 3 base "
                   f"schemas; defaults: {len(l11.BASES['defaults']['fields'])} field types x {len(l11.DEFAULT_VALUES)} JSON default kinds"]
    run.outside += ["names beyond the pools (every string: see the E1 string obligations if present)", "decimal precision 0 and boolean "
                    "precision/scale (not in the property's list: not asserted)", "string defaults for float/double (NaN spellings)"]
