"""Character-level naming obligations (E1, bounded symbolic strings) shared by C11 and C13.

The real schema_name / _parse_schema run on names, namespaces and references that are symbolic ASCII strings of
bounded length, so every placement of dots (none, leading, trailing, several, adjacent) and every combination of
explicit / inherited / empty namespace is covered within the bound; the oracle states the specification's rule with
different primitives (right-to-left character scan, slicing, concatenation) than the code under test uses."""
import z3

from vf.e1 import Z

SP = "fastavro._schema_py"
SC = "fastavro._schema_common"
CAP_NAME = [6]
CAP_NS = [5]
PRIMS = ("null", "boolean", "int", "long", "float", "double", "bytes", "string")


def _last_dot(s):
    for i in range(len(s) - 1, -1, -1):
        if s[i] == ".":
            return i
    return -1


def spec_fullname(name, has_ns, nsattr, enclosing):
    """(namespace, full name) by the specification: a dotted name wins, else the explicit namespace attribute (the
    empty string means the null namespace), else the namespace of the enclosing definition"""
    p = _last_dot(name)
    if p >= 0:
        return name[:p], name
    eff = nsattr if has_ns else enclosing
    if len(eff) > 0:
        return eff, eff + "." + name
    return "", name


def spec_ref(ref, enclosing):
    """the full name a by-name reference denotes"""
    if _last_dot(ref) >= 0 or len(enclosing) == 0:
        return ref
    return enclosing + "." + ref


def _inputs(m, with_ns=True):
    name = m.sstr("N", CAP_NAME[0], small=4)
    m.assume(Z(len_(m, name)) >= 1)
    has_ns = m.bool("has_ns") if with_ns else False
    nsattr = m.sstr("S", CAP_NS[0], small=3) if with_ns else ""
    parent = m.sstr("P", CAP_NS[0], small=3)
    return name, has_ns, nsattr, parent


def len_(m, s):
    if m.sym:
        return s._sx_len()
    return len(s)


def _mk(m, name, has_ns, nsattr, **extra):
    d = dict(extra, name=name)
    if m.sym:
        if has_ns:  # forks
            d["namespace"] = nsattr
    elif has_ns:
        d["namespace"] = nsattr
    return d


def h_schema_name(m):
    """schema_name(schema, enclosing) == the specification's (namespace, full name) for every name/namespace text"""
    mod = m.mod(SP)
    name, has_ns, nsattr, parent = _inputs(m)
    sch = _mk(m, name, has_ns, nsattr, type="record")
    got_ns, got_full = mod.schema_name(sch, parent)
    want_ns, want_full = spec_fullname(name, "namespace" in sch, nsattr, parent)
    m.prove("fullname", got_full == want_full, "full name differs from the specification's rule")
    m.prove("namespace_for_children", got_ns == want_ns, "namespace handed to nested definitions differs from the rule")


def h_spelling(m):
    """namespace + simple name and the dotted spelling give the same full name and the same namespace"""
    mod = m.mod(SP)
    simple = m.sstr("N", CAP_NAME[0] - 2, small=3)
    ns = m.sstr("S", CAP_NS[0], small=3)
    parent = m.sstr("P", CAP_NS[0], small=3)
    m.assume(z3.And(Z(len_(m, simple)) >= 1, Z(len_(m, ns)) >= 1))
    m.assume(z3.Not(Z(_has_dot(m, simple))))
    a = mod.schema_name({"type": "record", "name": simple, "namespace": ns}, parent)
    b = mod.schema_name({"type": "record", "name": ns + "." + simple}, parent)
    m.prove("same_fullname", a[1] == b[1], "dotted spelling and namespace+name give different full names")
    m.prove("same_namespace", a[0] == b[0], "dotted spelling and namespace+name hand different namespaces to nested types")


def _has_dot(m, s):
    if m.sym:
        return s._sx_contains(".")
    return "." in s


def _table(m, key):
    if m.sym:
        from vf.symex.sstr import SymMap, SymSet
        return SymMap([(key, {"type": "fixed", "name": key, "size": 1})]), SymSet([])
    return {key: {"type": "fixed", "name": key, "size": 1}}, set()


def h_reference(m):
    """a by-name reference resolves to the definition whose full name the rule gives, else UnknownType(that name)"""
    mod = m.mod(SP)
    com = m.mod(SC)
    ref = m.sstr("R", CAP_NAME[0], small=4)
    parent = m.sstr("P", CAP_NS[0], small=3)
    key = m.sstr("K", CAP_NAME[0] + CAP_NS[0] + 1, small=6)
    m.assume(Z(len_(m, ref)) >= 1)
    for p in PRIMS:
        m.assume(z3.Not(Z(ref == p)))
    table, names = _table(m, key)
    want = spec_ref(ref, parent)
    try:
        got = mod._parse_schema(ref, parent, False, False, names, table, mod.NO_DEFAULT, False)
    except com.UnknownType as e:
        m.prove("unknown_iff_undefined", z3.Not(Z(want == key)), "UnknownType raised although the denoted full name is defined")
        m.prove("unknown_names_the_type", e.name == want, "UnknownType does not name the full name the reference denotes")
        return
    m.prove("unknown_iff_undefined", want == key, "reference to an undefined full name was accepted")
    m.prove("resolves_to_fullname", got == want, "reference resolved to a different full name")


def h_def_enum(m):
    _definition(m, 0)


def h_def_fixed(m):
    _definition(m, 1)


def h_def_record(m):
    _definition(m, 2)


CAP_DEF = [4, 3, 3]  # name, namespaces, field reference (the record step composes two name computations)


def _definition(m, kind):
    """named type definition: registered under the rule's full name; redefinition raises iff that name is taken;
    a field of a record that refers to a type by name is resolved in the record's own namespace"""
    mod = m.mod(SP)
    com = m.mod(SC)
    if kind == 2:
        name = m.sstr("N", CAP_DEF[0], small=3)
        m.assume(Z(len_(m, name)) >= 1)
        has_ns = m.bool("has_ns")
        nsattr = m.sstr("S", CAP_DEF[1], small=3)
        parent = m.sstr("P", CAP_DEF[1], small=3)
        taken = m.sstr("E", CAP_DEF[0] + CAP_DEF[1] + 1, small=6)
    else:
        name, has_ns, nsattr, parent = _inputs(m)
        taken = m.sstr("E", CAP_NAME[0] + CAP_NS[0] + 1, small=6)
    extra = [dict(type="enum", symbols=["A"]), dict(type="fixed", size=2), dict(type="record")][kind]
    sch = _mk(m, name, has_ns, nsattr, **extra)
    ref = None
    if kind == 2:
        ref = m.sstr("R", CAP_DEF[2], small=3)
        m.assume(Z(len_(m, ref)) >= 1)
        for p in PRIMS:
            m.assume(z3.Not(Z(ref == p)))
        sch["fields"] = [{"name": "f", "type": ref}]
    if m.sym:
        from vf.symex.sstr import SymMap, SymSet
        table, names = SymMap([]), SymSet([taken])
    else:
        table, names = {}, {taken}
    want_ns, want_full = spec_fullname(name, "namespace" in sch, nsattr, parent)
    try:
        got = mod._parse_schema(sch, parent, False, False, names, table, mod.NO_DEFAULT, False)
    except com.UnknownType as e:
        if ref is None:
            m.fail("no_unknown_type", "UnknownType from a definition without references")
            return
        target = spec_ref(ref, want_ns)
        m.prove("field_ref.unknown_iff_undefined", z3.Not(Z(target == want_full)),
                "a field referring to the enclosing record by name was rejected")
        m.prove("field_ref.unknown_names_the_type", e.name == target, "UnknownType does not name the denoted full name")
        return
    except com.SchemaParseException:
        m.prove("redefinition_iff_taken", want_full == taken, "redefinition error although the full name is new")
        return
    m.prove("redefinition_iff_taken", z3.Not(Z(want_full == taken)), "a second definition of a taken full name was accepted")
    m.prove("carries_fullname", got["name"] == want_full, "the parsed definition does not carry the rule's full name")
    regs = table.keys() if m.sym else list(table.keys())
    m.prove("registered_under_fullname", z3.And(z3.BoolVal(len(regs) == 1), Z(regs[0] == want_full) if len(regs) == 1 else z3.BoolVal(False)),
            "definition not registered under its full name")
    added = names.added if m.sym else sorted(names - {taken})
    m.prove("name_marked_as_taken", z3.And(z3.BoolVal(len(added) == 1), Z(added[0] == want_full) if len(added) == 1 else z3.BoolVal(False)),
            "the set of taken names does not receive exactly the definition's full name (later redefinitions would go unnoticed)")
    if ref is not None:
        target = spec_ref(ref, want_ns)
        m.prove("field_ref.unknown_iff_undefined", target == want_full, "reference to an undefined name accepted inside a record")
        m.prove("field_ref.resolves", got["fields"][0]["type"] == target, "field reference resolved to a different full name")


def _spec_symbol_ok(m, s):
    """the specification's symbol syntax [A-Za-z_][A-Za-z0-9_]*, stated on character codes"""
    n = len(s)
    if n == 0:
        return z3.BoolVal(False)

    def code(i):
        if m.sym:
            c = s.cs[i]
            return c if not isinstance(c, int) else z3.BitVecVal(c, 8)
        return z3.BitVecVal(ord(s[i]), 8)

    def alpha_(c):
        return z3.Or(z3.And(z3.UGE(c, 65), z3.ULE(c, 90)), z3.And(z3.UGE(c, 97), z3.ULE(c, 122)), c == 95)

    def alnum_(c):
        return z3.Or(alpha_(c), z3.And(z3.UGE(c, 48), z3.ULE(c, 57)))
    return z3.And(alpha_(code(0)), *[alnum_(code(i)) for i in range(1, n)])


CAP_SYM = [3]


def h_enum_symbols(m):
    """_validate_enum_symbols accepts exactly: every symbol well-formed, symbols pairwise distinct, default (if any)
    among the symbols - for symbolic symbol texts"""
    mod = m.mod(SP)
    com = m.mod(SC)
    s0, s1 = m.sstr("A", CAP_SYM[0], small=2), m.sstr("B", CAP_SYM[0], small=2)
    has_d = m.bool("has_default")
    d = m.sstr("D", CAP_SYM[0], small=2)
    sch = {"type": "enum", "name": "E", "symbols": [s0, s1]}
    if has_d:
        sch["default"] = d
    ok0, ok1 = _spec_symbol_ok(m, s0), _spec_symbol_ok(m, s1)   # (fixes the lengths: one path per length pair)
    want = z3.And(ok0, ok1, z3.Not(Z(s0 == s1)))
    if "default" in sch:
        want = z3.And(want, z3.Or(Z(d == s0), Z(d == s1)))
    try:
        mod._validate_enum_symbols(sch)
    except com.SchemaParseException:
        m.prove("enum.rejected_only_if_illformed", z3.Not(want), "a well-formed enum (symbols, default) was rejected")
        return
    m.prove("enum.accepted_only_if_wellformed", want, "an enum with a malformed/duplicate symbol or a default outside the symbols was accepted")


def specs(tier):
    th = tier == "thorough"
    CAP_NAME[0] = 7 if th else 6
    CAP_NS[0] = 6 if th else 5
    CAP_DEF[:] = [5, 4, 4] if th else [4, 3, 3]
    b = 3000 if th else 280
    CAP_SYM[0] = 4 if th else 3
    return [
        dict(harness=h_enum_symbols, prefix="names.char.enum", expect=["enum.rejected_only_if_illformed", "enum.accepted_only_if_wellformed"],
             max_paths=20000, budget_s=b),
        dict(harness=h_schema_name, prefix="names.char.schema_name", expect=["fullname", "namespace_for_children"], max_paths=20000, budget_s=b),
        dict(harness=h_spelling, prefix="names.char.spelling", expect=["same_fullname", "same_namespace"], max_paths=20000, budget_s=b),
        dict(harness=h_reference, prefix="names.char.reference", expect=["unknown_iff_undefined", "resolves_to_fullname", "unknown_names_the_type"],
             max_paths=20000, budget_s=b),
        dict(harness=h_def_enum, prefix="names.char.def_enum",
             expect=["redefinition_iff_taken", "carries_fullname", "registered_under_fullname", "name_marked_as_taken"], max_paths=40000, budget_s=b),
        dict(harness=h_def_fixed, prefix="names.char.def_fixed",
             expect=["redefinition_iff_taken", "carries_fullname", "registered_under_fullname", "name_marked_as_taken"], max_paths=40000, budget_s=b),
        dict(harness=h_def_record, prefix="names.char.def_record",
             expect=["redefinition_iff_taken", "carries_fullname", "registered_under_fullname", "field_ref.resolves",
                     "field_ref.unknown_iff_undefined"], max_paths=40000, budget_s=b),
    ]


BOUNDS = ("character-level names (E1): name/reference <= %d characters, namespace attribute and enclosing namespace <= %d "
          "characters, every character any ASCII code 1..127 (so every placement of dots); one definition or reference per query, "
          "with the enclosing namespace, the set of taken names and the named-schema table arbitrary (one symbolic entry): an "
          "inductive step over the schema tree; the record step with a by-name field reference uses name <= %d, namespaces <= %d, "
          "reference <= %d characters")
