"""Character-level naming obligations (E1, bounded symbolic strings) shared by C11 and C13.

The real schema_name / _parse_schema run on names, namespaces and references that are symbolic ASCII strings of
bounded length, so every placement of dots (none, leading, trailing, several, adjacent) and every combination of
explicit / inherited / empty namespace is covered within the bound; the oracle states the specification's rule with
different primitives (right-to-left character scan, slicing, concatenation) than the code under test uses."""
import z3

from vf.e1 import Z

SP = "fastavro._schema_py"
SC = "fastavro._schema_common"
CAP_NAME = [6]
CAP_NS = [5]
PRIMS = ("null", "boolean", "int", "long", "float", "double", "bytes", "string")


def _last_dot(s):
    for i in range(len(s) - 1, -1, -1):
        if s[i] == ".":
            return i
    return -1


def spec_fullname(name, has_ns, nsattr, enclosing):
    """(namespace, full name) by the specification: a dotted name wins, else the explicit namespace attribute (the
    empty string means the null namespace), else the namespace of the enclosing definition"""
    p = _last_dot(name)
    if p >= 0:
        return name[:p], name
    eff = nsattr if has_ns else enclosing
    if len(eff) > 0:
        return eff, eff + "." + name
    return "", name


def spec_ref(ref, enclosing):
    """the full name a by-name reference denotes"""
    if _last_dot(ref) >= 0 or len(enclosing) == 0:
        return ref
    return enclosing + "." + ref


def _inputs(m, with_ns=True):
    name = m.sstr("N", CAP_NAME[0], small=4)
    m.assume(Z(len_(m, name)) >= 1)
    has_ns = m.bool("has_ns") if with_ns else False
    nsattr = m.sstr("S", CAP_NS[0], small=3) if with_ns else ""
    parent = m.sstr("P", CAP_NS[0], small=3)
    return name, has_ns, nsattr, parent


def len_(m, s):
    if m.sym:
        return s._sx_len()
    return len(s)


def _mk(m, name, has_ns, nsattr, **extra):
    d = dict(extra, name=name)
    if m.sym:
        if has_ns:  # forks
            d["namespace"] = nsattr
    elif has_ns:
        d["namespace"] = nsattr
    return d


def h_schema_name(m):
    """schema_name(schema, enclosing) == the specification's (namespace, full name) for every name/namespace text"""
    mod = m.mod(SP)
    name, has_ns, nsattr, parent = _inputs(m)
    sch = _mk(m, name, has_ns, nsattr, type="record")
    got_ns, got_full = mod.schema_name(sch, parent)
    want_ns, want_full = spec_fullname(name, "namespace" in sch, nsattr, parent)
    m.prove("fullname", got_full == want_full, "full name differs from the specification's rule")
    m.prove("namespace_for_children", got_ns == want_ns, "namespace handed to nested definitions differs from the rule")


def h_spelling(m):
    """namespace + simple name and the dotted spelling give the same full name and the same namespace"""
    mod = m.mod(SP)
    simple = m.sstr("N", CAP_NAME[0] - 2, small=3)
    ns = m.sstr("S", CAP_NS[0], small=3)
    parent = m.sstr("P", CAP_NS[0], small=3)
    m.assume(z3.And(Z(len_(m, simple)) >= 1, Z(len_(m, ns)) >= 1))
    m.assume(z3.Not(Z(_has_dot(m, simple))))
    a = mod.schema_name({"type": "record", "name": simple, "namespace": ns}, parent)
    b = mod.schema_name({"type": "record", "name": ns + "." + simple}, parent)
    m.prove("same_fullname", a[1] == b[1], "dotted spelling and namespace+name give different full names")
    m.prove("same_namespace", a[0] == b[0], "dotted spelling and namespace+name hand different namespaces to nested types")


def _has_dot(m, s):
    if m.sym:
        return s._sx_contains(".")
    return "." in s


def _table(m, key):
    if m.sym:
        from vf.symex.sstr import SymMap, SymSet
        return SymMap([(key, {"type": "fixed", "name": key, "size": 1})]), SymSet([])
    return {key: {"type": "fixed", "name": key, "size": 1}}, set()


def h_reference(m):
    """a by-name reference resolves to the definition whose full name the rule gives, else UnknownType(that name)"""
    mod = m.mod(SP)
    com = m.mod(SC)
    ref = m.sstr("R", CAP_NAME[0], small=4)
    parent = m.sstr("P", CAP_NS[0], small=3)
    key = m.sstr("K", CAP_NAME[0] + CAP_NS[0] + 1, small=6)
    m.assume(Z(len_(m, ref)) >= 1)
    for p in PRIMS:
        m.assume(z3.Not(Z(ref == p)))
    table, names = _table(m, key)
    want = spec_ref(ref, parent)
    try:
        got = mod._parse_schema(ref, parent, False, False, names, table, mod.NO_DEFAULT, False)
    except com.UnknownType as e:
        m.prove("unknown_iff_undefined", z3.Not(Z(want == key)), "UnknownType raised although the denoted full name is defined")
        m.prove("unknown_names_the_type", e.name == want, "UnknownType does not name the full name the reference denotes")
        return
    m.prove("unknown_iff_undefined", want == key, "reference to an undefined full name was accepted")
    m.prove("resolves_to_fullname", got == want, "reference resolved to a different full name")


def h_def_enum(m):
    _definition(m, 0)


def h_def_fixed(m):
    _definition(m, 1)


def h_def_record(m):
    _definition(m, 2)


CAP_DEF = [4, 3, 3]  # name, namespaces, field reference (the record step composes two name computations)


def _definition(m, kind):
    """named type definition: registered under the rule's full name; redefinition raises iff that name is taken;
    a field of a record that refers to a type by name is resolved in the record's own namespace"""
    mod = m.mod(SP)
    com = m.mod(SC)
    if kind == 2:
        name = m.sstr("N", CAP_DEF[0], small=3)
        m.assume(Z(len_(m, name)) >= 1)
        has_ns = m.bool("has_ns")
        nsattr = m.sstr("S", CAP_DEF[1], small=3)
        parent = m.sstr("P", CAP_DEF[1], small=3)
        taken = m.sstr("E", CAP_DEF[0] + CAP_DEF[1] + 1, small=6)
    else:
        name, has_ns, nsattr, parent = _inputs(m)
        taken = m.sstr("E", CAP_NAME[0] + CAP_NS[0] + 1, small=6)
    extra = [dict(type="enum", symbols=["A"]), dict(type="fixed", size=2), dict(type="record")][kind]
    sch = _mk(m, name, has_ns, nsattr, **extra)
    ref = None
    if kind == 2:
        ref = m.sstr("R", CAP_DEF[2], small=3)
        m.assume(Z(len_(m, ref)) >= 1)
        for p in PRIMS:
            m.assume(z3.Not(Z(ref == p)))
        sch["fields"] = [{"name": "f", "type": ref}]
    if m.sym:
        from vf.symex.sstr import SymMap, SymSet
        table, names = SymMap([]), SymSet([taken])
    else:
        table, names = {}, {taken}
    want_ns, want_full = spec_fullname(name, "namespace" in sch, nsattr, parent)
    try:
        got = mod._parse_schema(sch, parent, False, False, names, table, mod.NO_DEFAULT, False)
    except com.UnknownType as e:
        if ref is None:
            m.fail("no_unknown_type", "UnknownType from a definition without references")
            return
        target = spec_ref(ref, want_ns)
        m.prove("field_ref.unknown_iff_undefined", z3.Not(Z(target == want_full)),
                "a field referring to the enclosing record by name was rejected")
        m.prove("field_ref.unknown_names_the_type", e.name == target, "UnknownType does not name the denoted full name")
        return
    except com.SchemaParseException:
        m.prove("redefinition_iff_taken", want_full == taken, "redefinition error although the full name is new")
        return
    m.prove("redefinition_iff_taken", z3.Not(Z(want_full == taken)), "a second definition of a taken full name was accepted")
    m.prove("carries_fullname", got["name"] == want_full, "the parsed definition does not carry the rule's full name")
    regs = table.keys() if m.sym else list(table.keys())
    m.prove("registered_under_fullname", z3.And(z3.BoolVal(len(regs) == 1), Z(regs[0] == want_full) if len(regs) == 1 else z3.BoolVal(False)),
            "definition not registered under its full name")
    if ref is not None:
        target = spec_ref(ref, want_ns)
        m.prove("field_ref.unknown_iff_undefined", target == want_full, "reference to an undefined name accepted inside a record")
        m.prove("field_ref.resolves", got["fields"][0]["type"] == target, "field reference resolved to a different full name")


def specs(tier):
    th = tier == "thorough"
    CAP_NAME[0] = 7 if th else 6
    CAP_NS[0] = 6 if th else 5
    CAP_DEF[:] = [5, 4, 4] if th else [4, 3, 3]
    b = 3000 if th else 280
    return [
        dict(harness=h_schema_name, prefix="names.char.schema_name", expect=["fullname", "namespace_for_children"], max_paths=20000, budget_s=b),
        dict(harness=h_spelling, prefix="names.char.spelling", expect=["same_fullname", "same_namespace"], max_paths=20000, budget_s=b),
        dict(harness=h_reference, prefix="names.char.reference", expect=["unknown_iff_undefined", "resolves_to_fullname", "unknown_names_the_type"],
             max_paths=20000, budget_s=b),
        dict(harness=h_def_enum, prefix="names.char.def_enum",
             expect=["redefinition_iff_taken", "carries_fullname", "registered_under_fullname"], max_paths=40000, budget_s=b),
        dict(harness=h_def_fixed, prefix="names.char.def_fixed",
             expect=["redefinition_iff_taken", "carries_fullname", "registered_under_fullname"], max_paths=40000, budget_s=b),
        dict(harness=h_def_record, prefix="names.char.def_record",
             expect=["redefinition_iff_taken", "carries_fullname", "registered_under_fullname", "field_ref.resolves",
                     "field_ref.unknown_iff_undefined"], max_paths=40000, budget_s=b),
    ]


BOUNDS = ("character-level names (E1): name/reference <= %d characters, namespace attribute and enclosing namespace <= %d "
          "characters, every character any ASCII code 1..127 (so every placement of dots); one definition or reference per query, "
          "with the enclosing namespace, the set of taken names and the named-schema table arbitrary (one symbolic entry): an "
          "inductive step over the schema tree; the record step with a by-name field reference uses name <= %d, namespaces <= %d, "
          "reference <= %d characters")
