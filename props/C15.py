"""C15 - JSON codec emits the spec's JSON encoding, round-trips, agrees with binary."""
from vf import ch
from . import l2, l15


def run(run, tier):
    hs = l15.harnesses(tier, run.seed)
    ch.run_harnesses(run, "C15", hs, timeout=150 if tier == "quick" else 500)
    l2.describe(run, tier)
    run.bounds += ["schemas: " + ", ".join(l15.SCHEMAS if tier == "thorough" else l15.QUICK) + "; data: structure symbolic (branches, lengths "
                   "<= 1 quick / 2 thorough, optional fields), every leaf from a pool (JSON text of a symbolic number/string would "
                   "make CrossHair enumerate values), map keys k0,k1 (k0 is also a field name in map_key_is_field); one or two records; "
                   "write_union_type on/off; a symbolic subset (<= 3) of defaulted keys removed before reading"]
    run.outside += ["json.dumps/json.loads themselves (C code; run natively on the concrete values)", "NaN/Infinity", "map key ''"]
    run.stubs |= {"json module inside io.json_encoder/json_decoder: the native json run outside the tracer (arguments are concrete)"}
