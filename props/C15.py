"""C15 - JSON codec emits the spec's JSON encoding, round-trips, agrees with binary."""
from vf import ch
from . import l2, l15


JSON_MODULES = ["fastavro.io.json_encoder", "fastavro.io.json_decoder", "fastavro.io.parser", "fastavro.json_write",
                "fastavro.json_read"]


def probe_thresholds(run):
    """unwinding assertion for the record-count bound (<= 2 records per call are explored symbolically): a size
    threshold in the JSON codec's source beyond that bound is probed natively just below, at and above it; if the probe
    passes the threshold is still reported (the symbolic exploration does not reach it)"""
    from vf import bounds
    ths = bounds.size_thresholds(JSON_MODULES, 3)
    if not ths:
        run.obligation("bounds.no_size_threshold_beyond_the_bound", "discharged",
                       "no comparison of a container size with a literal > 3 in " + ", ".join(JSON_MODULES), paths=1)
        return
    for (mod, fn, line, lit) in ths:
        ob = f"bounds.threshold.{mod.split('.')[-1]}.{fn}.{lit}"
        if lit > 50000:
            run.obligation(ob, "inconclusive", f"size threshold {lit} at {mod}:{line} lies beyond the explored record counts", paths=1)
            continue
        verdict, detail = "inconclusive", (f"size threshold {lit} at {mod}:{line} ({fn}) lies beyond the symbolically explored record "
                                            "counts; probed natively at the threshold without a failure")
        for n in (lit - 1, lit, lit + 1, 2 * lit + 1):
            for name in ("rec_flat", "prim_long"):
                ok, d = l15.ob_count(name, n)
                run.validated += 1
                if not ok:
                    text = ("import sys, os\nsys.path[:0]=[os.environ.get('VF_ROOT','/verif'), os.environ.get('VF_REPO','/repo')]\n"
                            f"from props.l15 import ob_count\nok, d = ob_count({name!r}, {n})\n"
                            "print('REPRODUCED' if not ok else 'not reproduced', d)\nsys.exit(0 if ok else 1)\n")
                    v = run.violation(ob, f"json:count-threshold:{lit}", f"{d} (size threshold {lit} at {mod}:{line})", text)
                    verdict, detail = v, d
                    break
            if verdict != "inconclusive":
                break
        run.obligation(ob, verdict, detail, paths=1)


def run(run, tier):
    hs = l15.harnesses(tier, run.seed)
    ch.run_harnesses(run, "C15", hs, timeout=150 if tier == "quick" else 500)
    probe_thresholds(run)
    l2.describe(run, tier)
    run.bounds += ["schemas: " + ", ".join(l15.SCHEMAS if tier == "thorough" else l15.QUICK) + "; data: structure symbolic (branches, lengths "
                   "<= 1 quick / 2 thorough, optional fields), every leaf from a pool (JSON text of a symbolic number/string would "
                   "make CrossHair enumerate values), map keys k0,k1 (k0 is also a field name in map_key_is_field); one or two records; "
                   "write_union_type on/off; a symbolic subset (<= 3) of defaulted keys removed before reading"]
    run.outside += ["json.dumps/json.loads themselves (C code; run natively on the concrete values)", "NaN/Infinity", "map key ''"]
    run.stubs |= {"json module inside io.json_encoder/json_decoder: the native json run outside the tracer (arguments are concrete)"}
