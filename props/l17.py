"""C17 / C18 shared machinery: inventory of process-wide mutable state of fastavro, a catalogue of public
operations, frame obligations (no call changes shared state or its arguments) and history obligations (the
result of a call does not depend on earlier calls)."""
import copy
import decimal
import importlib
import io
import json
import pkgutil
import types

import fastavro

MODULES = None


def modules():
    global MODULES
    if MODULES is None:
        out = []
        for m in pkgutil.walk_packages(fastavro.__path__, "fastavro."):
            if m.name.endswith("__main__"):
                continue
            try:
                out.append(importlib.import_module(m.name))
            except Exception:
                pass
        MODULES = [fastavro] + out
    return MODULES


_IMMUTABLE = (str, bytes, int, float, bool, type(None), tuple, frozenset, types.FunctionType, types.BuiltinFunctionType,
              type, types.ModuleType)


def inventory():
    """{(module, name): object} for every module-level mutable object, plus mutable default arguments"""
    inv = {}
    for mod in modules():
        for name, v in vars(mod).items():
            if name.startswith("__") and name.endswith("__"):
                continue
            if isinstance(v, _IMMUTABLE) or callable(v) and not isinstance(v, (dict, list, set)):
                if isinstance(v, types.FunctionType) and v.__module__ == mod.__name__:
                    for i, d in enumerate(v.__defaults__ or ()):
                        if isinstance(d, (dict, list, set)):
                            inv[(mod.__name__, f"{name}.__defaults__[{i}]")] = d
                    for k, d in (v.__kwdefaults__ or {}).items():
                        if isinstance(d, (dict, list, set)):
                            inv[(mod.__name__, f"{name}.__kwdefaults__[{k}]")] = d
                continue
            if type(v).__module__ in ("typing", "re", "_sre", "abc") or "TypeVar" in type(v).__name__:
                continue
            inv[(mod.__name__, name)] = v
    return inv


def _freeze(v, depth=0):
    if isinstance(v, decimal.Context):
        return ("Context", v.prec, v.rounding, v.Emin, v.Emax, v.capitals, v.clamp)
    if isinstance(v, dict):
        return ("dict", tuple((repr(k), _freeze(x, depth + 1)) for k, x in v.items())) if depth < 6 else ("dict", len(v))
    if isinstance(v, (list, tuple)):
        return (type(v).__name__, tuple(_freeze(x, depth + 1) for x in v)) if depth < 6 else (type(v).__name__, len(v))
    if isinstance(v, (set, frozenset)):
        return ("set", tuple(sorted(repr(x) for x in v)))
    if isinstance(v, (str, bytes, int, float, bool, type(None))):
        return v
    if callable(v):
        return ("callable", getattr(v, "__qualname__", repr(type(v))))
    d = getattr(v, "__dict__", None)
    if d is not None and depth < 4:
        return (type(v).__name__, tuple((k, _freeze(x, depth + 1)) for k, x in sorted(d.items())))
    return ("obj", type(v).__name__)


def snapshot():
    return {k: _freeze(v) for k, v in inventory().items()}


def diff(a, b):
    return [k for k in a if a[k] != b.get(k)] + [k for k in b if k not in a]


# ---------------------------------------------------------------------------------------------------------
# operation catalogue
# ---------------------------------------------------------------------------------------------------------

def _rec(name, fields, **kw):
    return dict({"type": "record", "name": name, "fields": fields}, **kw)


# schemas that deliberately reuse type names with different definitions
S_A = _rec("T", [{"name": "a", "type": "int"}, {"name": "e", "type": {"type": "enum", "name": "E", "symbols": ["X", "Y"]}}])
S_B = _rec("T", [{"name": "b", "type": "string"}, {"name": "e", "type": {"type": "enum", "name": "E", "symbols": ["P", "Q", "R"]}}])
S_C = _rec("U", [{"name": "t", "type": _rec("T", [{"name": "z", "type": "long"}])}, {"name": "t2", "type": "T"}])
S_DEC = _rec("D", [{"name": "d", "type": {"type": "bytes", "logicalType": "decimal", "precision": 6, "scale": 2}},
                   {"name": "ts", "type": {"type": "long", "logicalType": "timestamp-millis"}}])
S_DEC2 = _rec("D", [{"name": "d", "type": {"type": "bytes", "logicalType": "decimal", "precision": 3, "scale": 1}}])
S_U = ["null", "T"]  # refers to a name that is only defined by other schemas
SCHEMAS = {"A": S_A, "B": S_B, "C": S_C, "DEC": S_DEC, "DEC2": S_DEC2, "BADREF": S_U}
DATA = {
    "A": [{"a": 1, "e": "X"}, {"a": "bad", "e": "X"}, {"a": 2, "e": "P"}],
    "B": [{"b": "s", "e": "Q"}, {"b": 5, "e": "Q"}],
    "C": [{"t": {"z": 5}, "t2": {"z": 6}}, {"t": {"a": 1, "e": "X"}, "t2": {"z": 6}}],
    "DEC": [{"d": decimal.Decimal("1234.56"), "ts": 1000}, {"d": decimal.Decimal("1.234"), "ts": 0}],
    "DEC2": [{"d": decimal.Decimal("12.3")}, {"d": decimal.Decimal("99.9")}],
    "BADREF": [None, {"z": 1}],
}
SKEYS = sorted(SCHEMAS)


def _res(fn):
    """run and fold the outcome into a comparable value"""
    try:
        return ("ok", fn())
    except Exception as e:
        return ("raised", type(e).__name__)


def op_parse(sk, di, P):
    import fastavro._schema_py as S
    return _res(lambda: _strip(S.parse_schema(SCHEMAS[sk])))


def op_write(sk, di, P):
    import fastavro._write_py as W
    def f():
        fo = io.BytesIO()
        W.schemaless_writer(fo, P.get(sk) or SCHEMAS[sk], DATA[sk][di % len(DATA[sk])])
        return fo.getvalue()
    return _res(f)


def op_roundtrip(sk, di, P):
    import fastavro._write_py as W
    import fastavro._read_py as R
    def f():
        fo = io.BytesIO()
        sch = P.get(sk) or SCHEMAS[sk]
        W.schemaless_writer(fo, sch, DATA[sk][di % len(DATA[sk])])
        fo.seek(0)
        return repr(R.schemaless_reader(fo, sch))
    return _res(f)


def op_validate(sk, di, P):
    import fastavro._validation_py as V
    return _res(lambda: V.validate(DATA[sk][di % len(DATA[sk])], P.get(sk) or SCHEMAS[sk], raise_errors=bool(di & 1)))


def op_pcf(sk, di, P):
    import fastavro._schema_py as S
    return _res(lambda: S.to_parsing_canonical_form(P.get(sk) or SCHEMAS[sk]))


def op_fingerprint(sk, di, P):
    import fastavro._schema_py as S
    return _res(lambda: S.fingerprint(json.dumps(SCHEMAS[sk], sort_keys=True), ["CRC-64-AVRO", "md5", "nope"][di % 3]))


def op_container(sk, di, P):
    import fastavro._write_py as W
    import fastavro._read_py as R
    def f():
        fo = io.BytesIO()
        W.writer(fo, P.get(sk) or SCHEMAS[sk], [DATA[sk][di % len(DATA[sk])]] * 2, sync_marker=b"0123456789abcdef",
                 codec=["null", "deflate"][di % 2])
        fo.seek(0)
        return repr(list(R.reader(fo)))
    return _res(f)


def op_json(sk, di, P):
    import fastavro.json_write as JW
    import fastavro.json_read as JR
    def f():
        fo = io.StringIO()
        JW.json_writer(fo, P.get(sk) or SCHEMAS[sk], [DATA[sk][di % len(DATA[sk])]])
        text = fo.getvalue()
        return text, repr(list(JR.json_reader(io.StringIO(text), P.get(sk) or SCHEMAS[sk])))
    return _res(f)


def op_generate(sk, di, P):
    import fastavro.utils as U
    import random
    def f():
        st = random.getstate()
        random.seed(1234 + di)
        try:
            v = U.generate_one(P.get(sk) or SCHEMAS[sk])
        finally:
            random.setstate(st)
        v = {k: x for k, x in v.items() if not isinstance(x, str) or len(x) != 32} if isinstance(v, dict) else v
        return repr(v)
    return _res(f)


OPS = [op_parse, op_write, op_roundtrip, op_validate, op_pcf, op_fingerprint, op_container, op_json, op_generate]


def _strip(s):
    if isinstance(s, list):
        return [_strip(x) for x in s]
    if isinstance(s, dict):
        return {k: _strip(v) for k, v in s.items() if k not in ("__named_schemas",)}
    return s


def pick(lst, i):
    for j, x in enumerate(lst):
        if i == j:
            return x
    return None


def parsed_pool():
    """parsed-schema objects shared across the calls of one history"""
    import fastavro._schema_py as S
    P = {}
    for k in SKEYS:
        try:
            P[k] = S.parse_schema(copy.deepcopy(SCHEMAS[k]))
        except Exception:
            P[k] = None
    return P


def ob_frame(oi, si, di, shared):
    """one call with any arguments (including failing ones) leaves every module-level mutable object, every
    mutable default argument, and its own schema/data arguments unchanged"""
    op, sk = pick(OPS, oi), pick(SKEYS, si)
    if op is None or sk is None or not (0 <= di < 4):
        return True, "out of domain"
    P = parsed_pool() if shared else {}
    before = snapshot()
    args_before = (_freeze(SCHEMAS), _freeze(DATA), _freeze(P))
    r = op(sk, di, P)
    after = snapshot()
    d = diff(before, after)
    if d:
        return False, f"{op.__name__}({sk}, {di}) changed process-wide state: {d[:4]!r} (outcome {r[0]})"
    if (_freeze(SCHEMAS), _freeze(DATA), _freeze(P)) != args_before:
        return False, f"{op.__name__}({sk}, {di}) modified its schema or data arguments (outcome {r[0]})"
    return True, ""


def ob_history(o1, s1, d1, o2, s2, d2, shared):
    """the result of the second call equals its result when it is made first"""
    op1, sk1, op2, sk2 = pick(OPS, o1), pick(SKEYS, s1), pick(OPS, o2), pick(SKEYS, s2)
    if None in (op1, sk1, op2, sk2) or not (0 <= d1 < 4) or not (0 <= d2 < 4):
        return True, "out of domain"
    P = parsed_pool() if shared else {}
    first = op2(sk2, d2, P)
    op1(sk1, d1, P)
    second = op2(sk2, d2, P)
    if first != second:
        return False, (f"{op2.__name__}({sk2}, {d2}) gives {second!r} after {op1.__name__}({sk1}, {d1}) but {first!r} when made first"
                       f" (shared parsed schemas: {shared})")
    return True, ""


def fresh_result(o2, s2, d2):
    """the same call in a fresh interpreter (subprocess) - used to validate solver witnesses"""
    import subprocess
    import sys
    code = ("import sys; sys.path[:0]=[%r, %r]\nfrom props import l17\nprint(repr(l17.pick(l17.OPS,%d)(l17.pick(l17.SKEYS,%d), %d, {})))"
            % (__import__("os").environ.get("VF_ROOT", "/verif"), __import__("os").environ.get("VF_REPO", "/repo"), o2, s2, d2))
    r = subprocess.run([sys.executable, "-c", code], capture_output=True, text=True, timeout=120)
    return r.stdout.strip()


# ---------------------------------------------------------------------------------------------------------
# frame obligations with symbolic data (the deciding step): E2 over token streams
# ---------------------------------------------------------------------------------------------------------
from vf import rt, shape
from vf.shape import OutOfDomain

_snap_native = rt.untraced(snapshot)
_freeze_native = rt.untraced(_freeze)
FRAME_SCHEMAS = ["rec_flat", "rec_defaults2", "union_named_mix", "pair_array_record", "pair_map_union", "ref_after_def",
                 "ns_inherit", "rec_list", "enum", "fixed", "prim_long", "union_two_recs"]
FRAME_QUICK = ["rec_flat", "rec_defaults2", "union_named_mix", "pair_array_record", "ref_after_def", "enum"]
FRAME_KINDS = [7, 0, shape.DELETE, 13]  # mutants used to make calls fail: wrong type, None, missing field, non-string map key
FRAME_OPS = ["write", "roundtrip", "validate", "validate_raise", "container", "json", "parse_pcf", "generate"]


def _copy_struct(d):
    if isinstance(d, dict):
        return {k: _copy_struct(v) for k, v in d.items()}
    if isinstance(d, list):
        return [_copy_struct(v) for v in d]
    if isinstance(d, tuple):
        return tuple(_copy_struct(v) for v in d)
    return d


def _same_struct(a, b):
    if type(a) != type(b):
        return False
    if isinstance(a, dict):
        return list(a.keys()) == list(b.keys()) and all(_same_struct(a[k], b[k]) for k in a)
    if isinstance(a, (list, tuple)):
        return len(a) == len(b) and all(_same_struct(x, y) for x, y in zip(a, b))
    return a is b or a == b


def ob_frame_sym(c, opi, v, pos, kind, parsed):
    """any single call - with conforming data or data carrying one mutation, so failing calls are included -
    leaves the state inventory, the schema object and the datum unchanged"""
    import fastavro._write_py as W
    import fastavro._read_py as R
    import fastavro._validation_py as V
    import fastavro._schema_py as S
    import fastavro.json_write as JW
    from . import l10, l4
    opn = pick(FRAME_OPS, opi)
    if opn is None:
        return True, "out of domain"
    kk = pick(FRAME_KINDS, kind) if pos >= 0 else 0
    if kk is None:
        return True, "out of domain"
    try:
        d = l10._datum(c, v, pos, kk)
    except OutOfDomain:
        return True, "out of domain"
    sch = c["parsed"] if parsed else c["schema"]
    sch_before = _freeze_native(sch)
    d_before = _copy_struct(d)
    before = _snap_native()
    outcome = "ok"
    try:
        if opn == "write":
            W.schemaless_writer(rt.new_io(), sch, d)
        elif opn == "roundtrip":
            fo = rt.new_io()
            W.schemaless_writer(fo, sch, d)
            rt.rewind(fo)
            R.schemaless_reader(fo, sch)
        elif opn == "validate":
            V.validate(d, sch, raise_errors=False)
        elif opn == "validate_raise":
            V.validate_many([d, d], sch, raise_errors=True)
        elif opn == "container":
            out, store = l4.seq_out()
            W.writer(out, sch, [d, d], sync_interval=1, sync_marker=b"0123456789abcdef", validator=bool(pos & 1))
            list(R.reader(l4.seq_in(store)))
        elif opn == "json":
            JW.json_writer(io.StringIO(), sch, [d])
        elif opn == "parse_pcf":
            S.to_parsing_canonical_form(sch)
            S.parse_schema(sch, {})
        elif opn == "generate":
            from . import l20
            import fastavro.utils as U
            import builtins
            saved = (U.random, U.__dict__.get("range"))
            U.random = l20.Draws([pos, kind, 3, 1, 4, 1, 5, 9, 2, 6])
            U.range = lambda k: builtins.range(min(k, 2))
            try:
                U.generate_one(sch)
                list(U.generate_many(sch, 2))
            finally:
                U.random = saved[0]
                if saved[1] is None:
                    del U.range
                else:
                    U.range = saved[1]
    except Exception as e:
        outcome = type(e).__name__
    after = _snap_native()
    df = diff(before, after)
    if df:
        return False, f"{opn} on {c['name']} changed process-wide state {df[:4]!r} (outcome {outcome}; datum {d!r})"
    if _freeze_native(sch) != sch_before:
        return False, f"{opn} on {c['name']} modified the schema object it was given (outcome {outcome})"
    if not _same_struct(d, d_before):
        return False, f"{opn} on {c['name']} modified the datum it was given: {d!r} was {d_before!r} (outcome {outcome})"
    return True, ""


_FC = {}


def fcase(name, thorough=False):
    from . import l2
    if (name, thorough) not in _FC:
        c = dict(l2.case(name, thorough))
        c["cfg"] = c["cfg"].but(K=1, ints="pool", strs="pool", floats="pool", bytes="pool", npool=2)
        _FC[(name, thorough)] = c
    return _FC[(name, thorough)]


def harnesses(tier, seed):
    from vf.ch import Harness
    th = tier == "thorough"
    hs = []
    for name in (FRAME_SCHEMAS if th else FRAME_QUICK):
        c = fcase(name, th)
        a = shape.ann(c["ir"], c["names"], c["cfg"])
        sv = shape.samples(c["ir"], c["names"], c["cfg"], seed + 23, n=2)
        for opi, opn in enumerate(FRAME_OPS):
            if opn == "json" and name in ("rec_list",):
                continue  # recursive types: C15 known finding
            call = f"ob_frame_sym(C, {opi}, v, pos, kind, parsed)"
            hs.append(Harness(f"frame.{opn}.{name}", "props.l17", f"v: {a}, pos: int, kind: int, parsed: bool", call + "[0]",
                              replay_call=call, setup=f"C = fcase({name!r}, {th})",
                              what=f"frame obligation of {opn} on {name}",
                              samples=[(sv[0], -1, 0, True), (sv[-1], 0, 0, False)], key=f"frame:{opn}:{name}"))
    return hs


def all_histories(limit=None):
    """every ordered pair of catalogue calls, run natively: the second call's result must equal its result when
    made first.  (Concrete validation of the inductive argument; returns (pairs run, failures))"""
    fails = []
    n = 0
    combos = [(o, s, d) for o in range(len(OPS)) for s in range(len(SKEYS)) for d in range(2)]
    firsts = {}
    for shared in (False, True):
        P = parsed_pool() if shared else {}
        for (o2, s2, d2) in combos:
            firsts[(o2, s2, d2, shared)] = OPS[o2](SKEYS[s2], d2, P)
    for shared in (False, True):
        P = parsed_pool() if shared else {}
        for (o1, s1, d1) in combos:
            OPS[o1](SKEYS[s1], d1, P)
            for (o2, s2, d2) in combos:
                r = OPS[o2](SKEYS[s2], d2, P)
                n += 1
                if r != firsts[(o2, s2, d2, shared)]:
                    fails.append((OPS[o1].__name__, SKEYS[s1], d1, OPS[o2].__name__, SKEYS[s2], d2, shared,
                                  repr(r)[:120], repr(firsts[(o2, s2, d2, shared)])[:120]))
                if limit and n >= limit:
                    return n, fails
    return n, fails
