"""C20 - generate_one / generate_many always produce data that conforms to the schema."""
import os
os.environ.setdefault("VF_WIDTH", "80")
from vf import ch
from vf.e1 import E1Runner
from . import l2, l20, g20


def probe_thresholds(run):
    """unwinding assertion: schemas are explored to nesting depth <= 4; a depth/size threshold in the generator's source
    beyond that is probed natively with a chain of by-name levels just below, at and above the threshold"""
    from vf import bounds
    ths = bounds.size_thresholds(["fastavro.utils"], 4)
    if not ths:
        run.obligation("bounds.no_threshold_beyond_the_bound", "discharged",
                       "no comparison of a size/depth with an integer constant > 4 in fastavro.utils", paths=1)
        return
    for (mod, fn, line, lit) in ths:
        ob = f"bounds.threshold.utils.{fn}.{lit}"
        verdict, detail = "inconclusive", (f"threshold {lit} at {mod}:{line} ({fn}) lies beyond the explored sizes; probed natively at "
                                            "the threshold without a failure")
        if lit <= 300:
            for n in (lit - 1, lit, lit + 1, lit + 3):
                ok, d = l20.ob_chain(n)
                run.validated += 1
                if not ok:
                    text = ("import sys, os\nsys.path[:0]=[os.environ.get('VF_ROOT','/verif'), os.environ.get('VF_REPO','/repo')]\n"
                            f"from props.l20 import ob_chain\nok, d = ob_chain({n})\n"
                            "print('REPRODUCED' if not ok else 'not reproduced', d)\nsys.exit(0 if ok else 1)\n")
                    verdict, detail = run.violation(ob, f"generate:depth-threshold:{lit}", f"{d} (threshold {lit} at {mod}:{line})", text), d
                    break
        run.obligation(ob, verdict, detail, paths=1)


def run(run, tier):
    g20.run_e1(run, tier)
    hs = l20.harnesses(tier, run.seed)
    ch.run_harnesses(run, "C20", hs, timeout=150 if tier == "quick" else 500)
    probe_thresholds(run)
    g20.known_recursion(run)
    l2.describe(run, tier)
    run.bounds += ["structure (E2): schemas " + ", ".join(l20.SCHEMAS if tier == "thorough" else l20.QUICK) + "; count n in 0..2 (symbolic); every draw "
                   "of the library's random source (randint: branch choices, enum indices, booleans, integer leaves) is a solver variable; float/bytes/string contents come from a deterministic counter (8 quick / 12 thorough draws per "
                   f"call; runs needing more are outside); the `range(10)` loops of gen_data are cut to {l20.CUT} iterations",
                   "leaf ranges (E1): for every primitive and logical leaf type, every value random.randint can return in the range "
                   "requested by gen_data satisfies the range of the type and is accepted by the logical reader"]
    run.outside += ["collections of the full 10 generated elements (loop cut: the loop body does not depend on the iteration index)",
                    "the distribution of the random source"]
    run.stubs |= {"random module inside fastavro.utils -> solver-controlled draws", "uuid.uuid4 -> fixed UUID", "range inside fastavro.utils -> cut to 2"}
