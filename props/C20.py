"""C20 - generate_one / generate_many always produce data that conforms to the schema."""
import os
os.environ.setdefault("VF_WIDTH", "80")
from vf import ch
from vf.e1 import E1Runner
from . import l2, l20, g20


def run(run, tier):
    g20.run_e1(run, tier)
    hs = l20.harnesses(tier, run.seed)
    ch.run_harnesses(run, "C20", hs, timeout=150 if tier == "quick" else 500)
    g20.known_recursion(run)
    l2.describe(run, tier)
    run.bounds += ["structure (E2): schemas " + ", ".join(l20.SCHEMAS if tier == "thorough" else l20.QUICK) + "; count n in 0..2 (symbolic); every draw "
                   "of the library's random source (randint: branch choices, enum indices, booleans, integer leaves) is a solver variable; float/bytes/string contents come from a deterministic counter (8 quick / 12 thorough draws per "
                   f"call; runs needing more are outside); the `range(10)` loops of gen_data are cut to {l20.CUT} iterations",
                   "leaf ranges (E1): for every primitive and logical leaf type, every value random.randint can return in the range "
                   "requested by gen_data satisfies the range of the type and is accepted by the logical reader"]
    run.outside += ["collections of the full 10 generated elements (loop cut: the loop body does not depend on the iteration index)",
                    "the distribution of the random source"]
    run.stubs |= {"random module inside fastavro.utils -> solver-controlled draws", "uuid.uuid4 -> fixed UUID", "range inside fastavro.utils -> cut to 2"}
