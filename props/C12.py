"""C12 - parsing is idempotent; raw, parsed and piecewise-parsed schemas behave alike."""
from vf import ch
from . import l2, l12


def run(run, tier):
    names = l12.SCHEMAS if tier == "thorough" else l12.QUICK
    for name in names:
        ok, detail = l12.ob_idempotent(name)
        run.obligation(f"idempotent.{name}", "discharged" if ok else "violated", detail or "parse_schema(parsed) is parsed", paths=1)
        if not ok:
            run.violation(f"idempotent.{name}", f"idempotent:{name}", detail,
                          "import sys, os\nsys.path[:0]=[os.environ.get('VF_ROOT','/verif'), os.environ.get('VF_REPO','/repo')]\nfrom props.l12 import ob_idempotent\n"
                          f"ok, d = ob_idempotent({name!r})\nprint('REPRODUCED' if not ok else 'ok', d)\nsys.exit(0 if ok else 1)\n")
    hs = l12.harnesses(tier, run.seed)
    ch.run_harnesses(run, "C12", hs, timeout=150 if tier == "quick" else 500)
    l2.describe(run, tier)
    run.bounds += ["schemas with nested named types: " + ", ".join(names) + "; every subset of their nested named types parsed separately "
                   "(symbolic mask; splits whose pieces need a later definition are not valid splits), symbolic datum (collections <= 1, "
                   "small ints, pooled strings); operations: schemaless write+read, validate, canonical form, container write + read from the "
                   "bare stream (symbolic sync_interval)"]
    run.outside += ["JSON codec and data generation under the three forms (covered for raw/parsed forms by C15/C20)"]
