"""C02 - encoder output is byte-for-byte the specification's encoding."""
from vf.e1 import E1Runner
from . import prim


def run(run, tier):
    r = E1Runner(run)
    prim.run_group(run, r, prim.ENC_HARNESSES)
    run.bounds += ["layer 1: every int64 / int32 / double bit pattern / payload length < 2^62, all values (z3 BV80 + no-overflow VCs)"]
