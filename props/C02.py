"""C02 - encoder output is byte-for-byte the specification's encoding."""
from vf.e1 import E1Runner
from vf import ch
from . import prim, l2


def run(run, tier):
    r = E1Runner(run)
    prim.run_group(run, r, prim.ENC_HARNESSES)
    l2.validate_standins(run, tier, run.seed, "spec")
    ch.run_harnesses(run, "C02", l2.harnesses(tier, run.seed, "spec"), timeout=120 if tier == "quick" else 400)
    l2.describe(run, tier)
    run.bounds += ["layer 1 (E1): every int64 / int32 / double bit pattern / payload length < 2^62, all values "
                   "(z3 BV80 + no-overflow VCs)"]
