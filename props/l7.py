"""C07: any history of write / failed write / flush / write_block / reopen-for-append reads back
as exactly the records successfully submitted; the header never changes."""
import io

from vf import rt, shape, tok
from vf.oracles import codec
from . import l2, l4
from .l2 import _same

import fastavro._write_py as W
import fastavro._read_py as R

rt.fast_concrete_schema_handling()

MARK = b"0123456789abcdef"
CODECS = ["null", "deflate", "bzip2", "xz"]

# per schema: conforming record variants and non-conforming ones
CASES = {
    "rec2": dict(
        schema={"type": "record", "name": "H", "fields": [{"name": "a", "type": "int"}, {"name": "s", "type": "string"}]},
        good=[{"a": 1, "s": ""}, {"a": -7, "s": "xyzxyzxyz"}, {"a": 0, "s": "é"}],
        bad=[{"a": "not-an-int", "s": "x"}, {"a": 5, "s": 12}, {"a": 5}, "not-a-record", {"a": 1 << 40, "s": "big"}],
        other={"type": "record", "name": "Other", "fields": [{"name": "q", "type": "long"}]},
    ),
    "empty": dict(
        schema={"type": "record", "name": "E0", "fields": []},
        good=[{}, {}],
        bad=["not-a-record", 5],
        other="string",
    ),
    "nullint": dict(
        schema=["null", "int"],
        good=[None, 3, None],
        bad=["str", 1.5, 1 << 33],
        other={"type": "record", "name": "Other", "fields": [{"name": "q", "type": "long"}]},
    ),
    # failures of other exception classes, each after part of the record has been encoded
    "exotic": dict(
        schema={"type": "record", "name": "X", "fields": [
            {"name": "a", "type": "int"}, {"name": "f", "type": "float"},
            {"name": "m", "type": {"type": "map", "values": "int"}},
            {"name": "ds", "type": {"type": "array", "items": "double"}}]},
        good=[{"a": 1, "f": 1.5, "m": {}, "ds": []}, {"a": 2, "f": -2.0, "m": {"k": 1}, "ds": [0.5]}],
        bad=[{"a": 1, "f": 3.5e38, "m": {}, "ds": []},          # OverflowError (binary32 range)
             {"a": 1, "f": 1.0, "m": [1, 2], "ds": []},          # AttributeError (list where a map is expected)
             {"a": 1, "f": 1.0, "m": {}, "ds": [1.0, "x"]},      # struct.error
             {"a": 1, "f": 1.0, "m": {"k": "v"}, "ds": []},      # TypeError/ValueError
             {"a": 1, "f": 1.0, "m": {}}],                        # missing field
        other="long",
    ),
    "nested": dict(
        schema={"type": "record", "name": "N", "fields": [
            {"name": "xs", "type": {"type": "array", "items": "int"}},
            {"name": "u", "type": ["null", "string"]}]},
        good=[{"xs": [], "u": None}, {"xs": [1, 2, 3], "u": "abc"}],
        bad=[{"xs": [1, "two", 3], "u": None}, {"xs": [1, 2], "u": 7}, {"xs": 5, "u": None}],
        other="long",
    ),
}


def new_file():
    return tok.TokIO() if rt.tokmode() else io.BytesIO()


def read_all(fo):
    """records in the stream as the real reader sees them (read position restored)"""
    if rt.tokmode():
        t = tok.TokIO()
        t.toks = list(fo.toks)
        src = t
    else:
        src = io.BytesIO(fo.getvalue())
    rd = R.reader(src)
    return list(rd), rd


def header_of(fo):
    """the header part of the stream: everything before the first block"""
    if rt.tokmode():
        # magic, map tokens, sync: up to and including the first raw 16-byte marker
        out = []
        for t in fo.toks:
            out.append(t)
            if t[0] == "raw" and isinstance(t[1], bytes) and len(t[1]) == 16 and len(out) > 1:
                break
        return out
    b = fo.getvalue()
    cur = codec.ByteCursor(b)
    cur.raw_size = 4
    cur.take("raw")
    while True:
        n = cur.take("long")[1]
        if n == 0:
            break
        if n < 0:
            n = -n
            cur.take("long")
        for _ in range(n):
            cur.take("utf8")
            cur.take("bytes")
    cur.raw_size = 16
    cur.take("raw")
    return b[:cur.pos]


def _pick(lst, i):
    for j, x in enumerate(lst):
        if i == j:
            return x
    return None


def donor_blocks(c, ci):
    """a donor file written with codec ci (one record per flush); returns [(Block, its records)] where the
    records are decoded from the block payload by the independent decoder"""
    fo = new_file()
    w = W.Writer(fo, c["schema"], codec=CODECS[ci], sync_interval=1, sync_marker=b"D" * 16)
    for r in c["good"][:2]:
        w.write(r)
        w.flush()
    fo.seek(0)
    out = []
    for b in R.block_reader(fo):
        payload = b.bytes_.getvalue()
        cur = codec.Cursor(payload.toks) if rt.tokmode() else codec.ByteCursor(payload)
        recs = [codec.decode(c["ir"], cur, c["names"]) for _ in range(b.num_records)]
        out.append((b, recs))
    return out


def ob_history(c, ops, si, validator, ci, di):
    """ops: list of (opcode, arg).  0 write good[arg]; 1 write bad[arg]; 2 flush; 3 write_block donor[arg];
    4 close and reopen for append with argument variant arg."""
    if si < 1 or not (0 <= ci < 4) or not (0 <= di < 4) or len(ops) > c["maxops"]:
        return True, "out of domain"
    # ops are indices into the alphabet of this harness (histories are split over several harnesses)
    decoded = []
    for x in ops:
        hit = None
        for j, oa in enumerate(c["alphabet"]):
            if x == j:
                hit = oa
        if hit is None:
            return True, "out of domain"
        decoded.append(hit)
    ops = decoded
    codec_name = _pick(CODECS, ci)
    dcodec = None
    for j in range(4):
        if di == j:
            dcodec = j
    blocks = None
    fo = new_file()
    try:
        w = W.Writer(fo, c["schema"], codec=codec_name, sync_interval=si, validator=validator, sync_marker=MARK,
                     metadata={"created": "yes"})
    except Exception as e:
        return False, f"creating the writer raised {type(e).__name__}: {e}"
    submitted = []
    header = None
    trace = []

    def check(when):
        nonlocal header
        try:
            got, rd = read_all(fo)
        except Exception as e:
            return f"after {when}: reading the file back raised {type(e).__name__}: {e}; history {trace!r}"
        want = [codec.normalise(c["ir"], d, c["names"], rt.f32) for d in submitted]
        if not _same(got, want):
            return f"after {when}: file reads back as {got!r}, submitted so far {want!r}; history {trace!r}"
        h = header_of(fo)
        if header is None:
            header = h
        elif h != header:
            return f"after {when}: the header changed; history {trace!r}"
        if rd.codec != codec_name or rd.metadata.get("created") != "yes":
            return f"after {when}: codec/metadata changed to {rd.codec!r}/{rd.metadata!r}; history {trace!r}"
        return None

    for (op, arg) in ops:
        if op == 0:
            r = _pick(c["good"], arg)
            if r is None:
                return True, "out of domain"
            trace.append(("write", r))
            try:
                w.write(r)
            except Exception as e:
                return False, f"writing conforming record {r!r} raised {type(e).__name__}: {e}; history {trace!r}"
            submitted.append(r)
        elif op == 1:
            r = _pick(c["bad"], arg)
            if r is None:
                return True, "out of domain"
            trace.append(("write-bad", r))
            try:
                w.write(r)
            except Exception:
                continue
            if validator:
                return False, f"non-conforming record {r!r} was accepted with validation on; history {trace!r}"
            # without validation some non-conforming data are encodable (an int beyond 32 bits);
            # the property only speaks about writes that fail
            return True, "statement silent: the non-conforming write did not fail"
        elif op == 2:
            trace.append(("flush",))
            try:
                w.flush()
            except Exception as e:
                return False, f"flush raised {type(e).__name__}: {e}; history {trace!r}"
            err = check("flush")
            if err:
                return False, err
        elif op == 3:
            if arg not in (0, 1):
                return True, "out of domain"
            if blocks is None:
                blocks = donor_blocks(c, dcodec)
            b, brecs = blocks[1] if (arg == 1 and len(blocks) > 1) else blocks[0]
            trace.append(("write_block", CODECS[dcodec], arg))
            try:
                w.write_block(b)
            except Exception as e:
                return False, f"write_block raised {type(e).__name__}: {e}; history {trace!r}"
            submitted.extend(brecs)
        elif op == 4:
            if not (0 <= arg < 4):
                return True, "out of domain"
            trace.append(("reopen", arg))
            try:
                w.flush()
                kw = [dict(schema=None), dict(schema=c["other"], codec="deflate" if codec_name != "deflate" else "null"),
                      dict(schema=c["schema"], metadata={"created": "no", "extra": "1"}),
                      dict(schema=None, sync_marker=b"Z" * 16, codec="xz" if codec_name != "xz" else "null")][arg]
                sch = kw.pop("schema")
                w = W.Writer(fo, sch, sync_interval=si, validator=validator, **kw)
            except Exception as e:
                return False, f"reopening for append raised {type(e).__name__}: {e}; history {trace!r}"
            err = check("reopen")
            if err:
                return False, err
        else:
            return True, "out of domain"
    trace.append(("flush",))
    try:
        w.flush()
    except Exception as e:
        return False, f"final flush raised {type(e).__name__}: {e}; history {trace!r}"
    err = check("final flush")
    if err:
        return False, err
    return True, ""


ALPHABETS = {
    "writes": [(0, 0), (0, 1), (1, 0), (1, 1), (2, 0)],
    "badwrites": [(0, 0), (1, 1), (1, 2), (1, 3), (1, 4), (2, 0)],
    "blocks": [(0, 0), (1, 0), (2, 0), (3, 0), (3, 1)],
    # (1, 4)/(1, 2): non-conforming records that the encoder alone would accept (an int beyond 32 bits): only a validating
    # writer refuses them - also after the file was reopened for append
    "append": [(0, 1), (1, 1), (2, 0), (4, 0), (4, 1)],
    "append_validating": [(0, 1), (1, 4), (1, 2), (2, 0), (4, 0)],
    "append2": [(0, 0), (2, 0), (4, 2), (4, 3), (3, 0)],
}


def case(name, maxops, alphabet="writes"):
    import copy
    from vf.oracles import ir as IR
    import fastavro._schema_py as S
    c = dict(CASES[name])
    names = {}
    c["ir"] = IR.to_ir(c["schema"], "", names)
    c["names"] = names
    c["maxops"] = maxops
    c["alphabet"] = [(o, a) for (o, a) in ALPHABETS[alphabet]
                     if not (o == 0 and a >= len(c["good"])) and not (o == 1 and a >= len(c["bad"]))]
    c["name"] = name
    return c


def _key(a, k):
    return "history:" + ",".join(str(o) for o in a[0])


def harnesses(tier, seed):
    from vf.ch import Harness
    import zlib
    th = tier == "thorough"
    hs = []
    for name in CASES:
        for alpha in ALPHABETS:
            if alpha == "append_validating" and name in ("empty", "nullint", "nested"):
                continue  # no record variant that only a validating writer refuses
            n = 4 if th else 3
            h = zlib.crc32((name + alpha).encode()) + seed
            if th and alpha == "writes" and name in ("rec2", "empty"):
                # everything symbolic for the basic alphabet on two schemas; the other thorough harnesses deepen the
                # history (4 operations) with the quick tier's choice of the remaining dimensions - all of them symbolic
                # at length 4 did not finish (25 of 26 harnesses "Not confirmed" in 400 s each)
                call = "ob_history(C, ops, si, validator, ci, di)"
                ps = "ops: List[int], si: int, validator: bool, ci: int, di: int"
            elif alpha == "append_validating":
                # a validating writer must still validate after a reopen for append
                call = f"ob_history(C, ops, si, True, {h & 3}, {(h >> 2) & 3})"
                ps = "ops: List[int], si: int"
            elif name in ("empty", "nullint") and alpha == "writes":
                # zero-byte records: the codec is symbolic as well (an empty payload is the corner case of every
                # block compressor)
                call = f"ob_history(C, ops, si, {bool(h & 16)}, ci, {(h >> 2) & 3})"
                ps = "ops: List[int], si: int, ci: int"
            else:
                call = f"ob_history(C, ops, si, {bool(h & 16)}, {h & 3}, {(h >> 2) & 3})"
                ps = "ops: List[int], si: int"
            hs.append(Harness(f"history.{name}.{alpha}", "props.l7", ps, call + "[0]", replay_call=call,
                              setup=f"C = case({name!r}, {n}, {alpha!r})",
                              what=f"operation history on {name} ({alpha})",
                              samples=[([0, 1, 2], 1) + ((False, 0, 1) if "di: int" in ps else ((3,) if "ci: int" in ps else ((True,) if "validator: bool" in ps else ()))),
                                       ([1, 0, 3], 100) + ((True, 1, 0) if "di: int" in ps else ((1,) if "ci: int" in ps else ((False,) if "validator: bool" in ps else ()))),
                                       ([2, 4, 0], 7) + ((False, 2, 2) if "di: int" in ps else ((2,) if "ci: int" in ps else ((True,) if "validator: bool" in ps else ())))],
                              key=lambda a, k, nm=name, al=alpha: f"history:{nm}:{al}:" + ",".join(str(o) for o in a[0])))
    return hs
