"""C08 - reading with a reader schema yields what the spec's resolution rules prescribe."""
from vf import ch
from . import l2, l8


def run(run, tier):
    # writer-only fields are stepped over by the skip_* functions: exact consumption for every value (E1)
    from vf.e1 import E1Runner
    from . import prim
    prim.run_group(run, E1Runner(run), prim.SKIP_EXACT_HARNESSES)
    hs = l8.harnesses(tier, run.seed)
    ch.run_harnesses(run, "C08", hs, timeout=100 if tier == "quick" else 300)
    l2.describe(run, tier)
    run.bounds += [f"(writer, reader) pairs: {len(l8.pairs())} generated from {len(l8.WRITERS)} writer schemas by one evolution step "
                   f"at every position (this run: {len(hs)}); datum symbolic under the writer schema (collections <= 1 quick / 2 thorough)"]
    run.outside += ["compositions of evolution steps other than rename-with-alias combined with a field or symbol change",
                    "container reader (the same read_data code; covered by C04 with reader == writer)"]
