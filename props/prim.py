"""Layer-1 (E1) obligations on the binary encoder/decoder primitives: the token
contract T1-T5 of DESIGN.md section 3.  Shared by C01, C02, C03, C06."""
import struct
import z3

from vf.e1 import Z
from vf.symex.core import WIDTH, zint, F32, F64, RNE

ENC = "fastavro.io.binary_encoder"
DEC = "fastavro.io.binary_decoder"
I64 = (-(1 << 63), (1 << 63) - 1)


def bv(x):
    return z3.BitVecVal(x, WIDTH)


# ---- the specification, as SMT terms ----------------------------------------

def spec_zigzag(n):
    """Avro spec: zig-zag maps signed to unsigned: 0,-1,1,-2 -> 0,1,2,3"""
    return z3.If(n >= 0, 2 * n, -2 * n - 1)


def spec_varint_len(zz, k):
    """condition: the minimal base-128 length of unsigned zz is k (1..10)"""
    c = []
    if k < 10:
        c.append(z3.ULT(zz, bv(1 << (7 * k))))
    if k > 1:
        c.append(z3.UGE(zz, bv(1 << (7 * (k - 1)))))
    return z3.And(*c) if c else z3.BoolVal(True)


def spec_varint_byte(zz, i, k):
    g = z3.ZeroExt(WIDTH - 7, z3.Extract(7 * i + 6, 7 * i, zz))
    return (g | bv(0x80)) if i < k - 1 else g


def check_varint(m, ob, bts, n):
    """bts (list of z3 byte terms) is exactly the spec varint of signed n"""
    zz = spec_zigzag(Z(n))
    k = len(bts)
    m.prove(ob + ".len", spec_varint_len(zz, k) if 1 <= k <= 10 else z3.BoolVal(False),
            f"varint length {k} is not the minimal length")
    m.prove(ob + ".bytes", z3.And(*[bts[i] == spec_varint_byte(zz, i, k) for i in range(k)]),
            "varint bytes differ from the specification")


def spec_f64_bytes(x):
    """little-endian IEEE-754 binary64 of FP term x (non-NaN)"""
    b = z3.fpToIEEEBV(x)
    return [z3.ZeroExt(WIDTH - 8, z3.Extract(8 * i + 7, 8 * i, b)) for i in range(8)]


def spec_f32_bytes(x):
    b = z3.fpToIEEEBV(z3.fpFPToFP(RNE, x, F32))
    return [z3.ZeroExt(WIDTH - 8, z3.Extract(8 * i + 7, 8 * i, b)) for i in range(4)]


def spec_f32_overflow(x):
    return z3.And(z3.fpIsInf(z3.fpFPToFP(RNE, x, F32)), z3.Not(z3.fpIsInf(x)))


# ---- encoder: T1/T4 -------------------------------------------------------------

def h_enc_long(m):
    n = m.int("n", *I64)
    out = m.out()
    m.mod(ENC).BinaryEncoder(out).write_long(n)
    check_varint(m, "long", m.byte_terms(out.getvalue()), n)


def h_enc_int(m):
    n = m.int("n", -(1 << 31), (1 << 31) - 1)
    out = m.out()
    m.mod(ENC).BinaryEncoder(out).write_int(n)
    check_varint(m, "int", m.byte_terms(out.getvalue()), n)


def _enc_via(m, meth, ob, lo, hi):
    n = m.int("n", lo, hi)
    out = m.out()
    getattr(m.mod(ENC).BinaryEncoder(out), meth)(n)
    check_varint(m, ob, m.byte_terms(out.getvalue()), n)


def h_enc_enum(m):
    _enc_via(m, "write_enum", "enum_index", 0, (1 << 31) - 1)


def h_enc_index(m):
    _enc_via(m, "write_index", "union_index", 0, (1 << 31) - 1)


def h_enc_item_count(m):
    _enc_via(m, "write_item_count", "item_count", 0, (1 << 63) - 1)


def h_enc_ends(m):
    for meth in ("write_array_end", "write_map_end"):
        out = m.out()
        getattr(m.mod(ENC).BinaryEncoder(out), meth)()
        b = m.byte_terms(out.getvalue())
        m.prove(meth, z3.And(len(b) == 1, b[0] == 0) if len(b) == 1 else z3.BoolVal(False),
                "terminator is not the single byte 0")
    for meth in ("write_null", "write_array_start", "write_map_start", "end_item", "flush"):
        out = m.out()
        getattr(m.mod(ENC).BinaryEncoder(out), meth)()
        m.prove(meth + ".empty", len(m.byte_terms(out.getvalue())) == 0, f"{meth} must write nothing")


def h_enc_boolean(m):
    d = m.bool("d")
    out = m.out()
    m.mod(ENC).BinaryEncoder(out).write_boolean(d)
    b = m.byte_terms(out.getvalue())
    m.prove("boolean", z3.And(b[0] == z3.If(Z(d), bv(1), bv(0))) if len(b) == 1 else z3.BoolVal(False),
            "boolean is not one byte 0/1")


def h_enc_double(m):
    x = m.f64("x")
    out = m.out()
    m.mod(ENC).BinaryEncoder(out).write_double(x)
    b = m.byte_terms(out.getvalue())
    sp = spec_f64_bytes(Z(x))
    m.prove("double", z3.And(*[b[i] == sp[i] for i in range(8)]) if len(b) == 8 else z3.BoolVal(False),
            "double is not 8 bytes little-endian IEEE-754")


def h_enc_float(m):
    x = m.f64("x")
    out = m.out()
    try:
        m.mod(ENC).BinaryEncoder(out).write_float(x)
    except OverflowError:
        m.prove("float.overflow_only_when_unrepresentable", spec_f32_overflow(Z(x)),
                "OverflowError for a value that fits IEEE single")
        return
    b = m.byte_terms(out.getvalue())
    sp = spec_f32_bytes(Z(x))
    m.prove("float.no_silent_inf", z3.Not(spec_f32_overflow(Z(x))), "finite double stored as infinity")
    m.prove("float", z3.And(*[b[i] == sp[i] for i in range(4)]) if len(b) == 4 else z3.BoolVal(False),
            "float is not 4 bytes little-endian IEEE-754 single (round to nearest even)")


def h_enc_double_twice(m):
    """the bytes of a value do not depend on values written earlier (a memoising encoder must key on the bit
    pattern: 0.0 == -0.0 and 1 == 1.0 in Python)"""
    x1, x2 = m.f64("x1"), m.f64("x2")
    E = m.mod(ENC).BinaryEncoder
    E(m.out()).write_double(x1)
    out = m.out()
    E(out).write_double(x2)
    b = m.byte_terms(out.getvalue())
    sp = spec_f64_bytes(Z(x2))
    m.prove("double.second_call", z3.And(*[b[i] == sp[i] for i in range(8)]) if len(b) == 8 else z3.BoolVal(False),
            "the encoding of a double depends on a double written before it")


def h_enc_float_twice(m):
    x1, x2 = m.f64("x1"), m.f64("x2")
    m.assume(z3.And(z3.Not(spec_f32_overflow(Z(x1))), z3.Not(spec_f32_overflow(Z(x2)))))
    E = m.mod(ENC).BinaryEncoder
    E(m.out()).write_float(x1)
    out = m.out()
    E(out).write_float(x2)
    b = m.byte_terms(out.getvalue())
    sp = spec_f32_bytes(Z(x2))
    m.prove("float.second_call", z3.And(*[b[i] == sp[i] for i in range(4)]) if len(b) == 4 else z3.BoolVal(False),
            "the encoding of a float depends on a float written before it")


def h_enc_long_twice(m):
    n1, n2 = m.int("n1", *I64), m.int("n2", *I64)
    E = m.mod(ENC).BinaryEncoder
    E(m.out()).write_long(n1)
    out = m.out()
    E(out).write_long(n2)
    check_varint(m, "long.second_call", m.byte_terms(out.getvalue()), n2)


def h_enc_nan(m):
    """NaN inputs are compared by class only"""
    x = m.f64("x", nan=True)
    m.assume(z3.fpIsNaN(Z(x)))
    for meth, n, sort in (("write_double", 8, F64), ("write_float", 4, F32)):
        out = m.out()
        getattr(m.mod(ENC).BinaryEncoder(out), meth)(x)
        b = m.byte_terms(out.getvalue())
        if len(b) != n:
            m.fail(meth + ".nan", "wrong length")
            continue
        word = z3.Concat(*[z3.Extract(7, 0, t) for t in reversed(b)])
        m.prove(meth + ".nan", z3.fpIsNaN(z3.fpBVToFP(word, sort)), "NaN not stored as a NaN")


def h_enc_bytes(m):
    n = m.int("n", 0, (1 << 62), small=5)
    payload = m.blob("P", n)
    out = m.out()
    m.mod(ENC).BinaryEncoder(out).write_bytes(payload)
    _check_len_prefixed(m, "bytes", out.getvalue(), n, payload)


def _split(m, b, npayload):
    """split written bytes into (prefix byte terms, payload) ; payload compared structurally"""
    from vf.symex.models import SBytes, Blob
    if isinstance(b, SBytes):
        pre = [p for p in b.pieces if not isinstance(p, Blob)]
        rest = SBytes([p for p in b.pieces if isinstance(p, Blob)])
        # prefix bytes must come first
        k = len(pre)
        if any(isinstance(p, Blob) for p in b.pieces[:k]):
            return None, None
        return [zint(p) for p in pre], rest
    b = bytes(b)
    k = len(b) - int(npayload)
    return [zint(x) for x in b[:k]], b[k:]


def _check_len_prefixed(m, ob, written, n, payload):
    pre, rest = _split(m, written, n)
    if pre is None:
        m.fail(ob + ".layout", "payload written before its length prefix")
        return
    check_varint(m, ob + ".prefix", pre, n)
    if m.sym:
        from vf.symex.models import SBytes
        try:
            m.prove(ob + ".payload", SBytes.lift(rest).eq(payload), "payload bytes differ")
        except Exception as e:
            if "opaque" in str(e) or "structured" in str(e):
                # structure differs: e.g. nothing written for a non-empty payload
                m.prove(ob + ".payload", Z(n) == 0, "payload bytes differ")
            else:
                raise
    else:
        m.prove(ob + ".payload", bytes(rest) == bytes(payload), "payload bytes differ")


def h_enc_utf8(m):
    s = m.ostr("S")
    out = m.out()
    m.mod(ENC).BinaryEncoder(out).write_utf8(s)
    blen = s.blen if m.sym else len(s.encode())
    payload = s.encode()
    _check_len_prefixed(m, "string", out.getvalue(), blen, payload)


def h_enc_fixed(m):
    n = m.int("n", 0, (1 << 40), small=5)
    payload = m.blob("P", n)
    out = m.out()
    m.mod(ENC).BinaryEncoder(out).write_fixed(payload)
    w = out.getvalue()
    if m.sym:
        from vf.symex.models import SBytes
        try:
            m.prove("fixed", SBytes.lift(w).eq(payload), "fixed is not written raw")
        except Exception as e:
            if "opaque" in str(e) or "structured" in str(e):
                m.fail("fixed", "fixed is not written raw")
            else:
                raise
    else:
        m.prove("fixed", bytes(w) == bytes(payload), "fixed is not written raw")


def h_enc_utf8_type(m):
    """write_utf8 of a non-string raises TypeError (the documented contract)"""
    out = m.out()
    try:
        m.mod(ENC).BinaryEncoder(out).write_utf8(m.int("n", 0, 10))
    except TypeError:
        m.note("utf8.nonstring_raises")
        m.prove("utf8.nonstring_raises", True)
        return
    except Exception:
        pass
    m.fail("utf8.nonstring_raises", "write_utf8(int) did not raise TypeError")


ENC_HARNESSES = [
    (h_enc_long, "enc", ["long.len", "long.bytes"]),
    (h_enc_int, "enc", ["int.len", "int.bytes"]),
    (h_enc_enum, "enc", ["enum_index.len", "enum_index.bytes"]),
    (h_enc_index, "enc", ["union_index.len", "union_index.bytes"]),
    (h_enc_item_count, "enc", ["item_count.len", "item_count.bytes"]),
    (h_enc_ends, "enc", ["write_array_end", "write_map_end", "write_null.empty"]),
    (h_enc_boolean, "enc", ["boolean"]),
    (h_enc_double, "enc", ["double"]),
    (h_enc_float, "enc", ["float", "float.no_silent_inf", "float.overflow_only_when_unrepresentable"]),
    (h_enc_nan, "enc", ["write_double.nan", "write_float.nan"]),
    (h_enc_double_twice, "enc", ["double.second_call"]),
    (h_enc_float_twice, "enc", ["float.second_call"]),
    (h_enc_long_twice, "enc", ["long.second_call.len", "long.second_call.bytes"]),
    (h_enc_bytes, "enc", ["bytes.prefix.len", "bytes.prefix.bytes", "bytes.payload"]),
    (h_enc_utf8, "enc", ["string.prefix.len", "string.prefix.bytes", "string.payload"]),
    (h_enc_fixed, "enc", ["fixed"]),
    (h_enc_utf8_type, "enc", ["utf8.nonstring_raises"]),
]


def run_group(run, runner, group):
    runner.check_many([dict(harness=h, prefix=prefix, expect=expect) for h, prefix, expect in group])


# ---- decoder: T2 (round trip, exact consumption), T5, T3 ----------------------------

def _rest(m):
    return m.blob("R", m.int("rl", 0, 1 << 40, small=3))


def _at_rest(m, ob, stream, rest, written_len):
    """the decoder stopped exactly where the suffix begins"""
    if m.sym:
        from vf.symex.models import SBytes
        try:
            m.prove(ob, stream.remaining().eq(rest), "decoder did not stop at the end of the value")
        except Exception as e:
            if "opaque" in str(e) or "structured" in str(e):
                m.fail(ob, "decoder did not stop at the end of the value")
            else:
                raise
    else:
        m.prove(ob, stream.tell() == int(written_len), "decoder did not stop at the end of the value")


def _wlen(b):
    return b._sx_len() if hasattr(b, "_sx_len") else len(b)


def _rt(m, wmeth, rmeth, v, ob, same):
    out = m.out()
    getattr(m.mod(ENC).BinaryEncoder(out), wmeth)(v)
    w = out.getvalue()
    rest = _rest(m)
    stream = m.inp(w + rest)
    r = getattr(m.mod(DEC).BinaryDecoder(stream), rmeth)()
    m.prove(ob + ".value", same(r), "decoded value differs from the written one")
    _at_rest(m, ob + ".consumed", stream, rest, _wlen(w))


def h_rt_long(m):
    n = m.int("n", *I64)
    _rt(m, "write_long", "read_long", n, "long", lambda r: Z(r) == Z(n))


def h_rt_int(m):
    n = m.int("n", -(1 << 31), (1 << 31) - 1)
    _rt(m, "write_int", "read_int", n, "int", lambda r: Z(r) == Z(n))


def h_rt_counts(m):
    n = m.int("n", 0, (1 << 31) - 1)
    _rt(m, "write_enum", "read_enum", n, "enum_index", lambda r: Z(r) == Z(n))
    _rt(m, "write_index", "read_index", n, "union_index", lambda r: Z(r) == Z(n))


def h_rt_boolean(m):
    d = m.bool("d")
    _rt(m, "write_boolean", "read_boolean", d, "boolean", lambda r: Z(r) == Z(d))


def _fbits(x):
    return z3.fpToIEEEBV(Z(x))


def h_rt_double(m):
    x = m.f64("x")
    _rt(m, "write_double", "read_double", x, "double", lambda r: _fbits(r) == _fbits(x))


def h_rt_float(m):
    x = m.f64("x")
    m.assume(z3.Not(spec_f32_overflow(Z(x))))
    want = z3.fpFPToFP(RNE, z3.fpFPToFP(RNE, Z(x), F32), F64)
    _rt(m, "write_float", "read_float", x, "float", lambda r: z3.fpToIEEEBV(Z(r)) == z3.fpToIEEEBV(want))


def h_rt_nan(m):
    x = m.f64("x", nan=True)
    m.assume(z3.fpIsNaN(Z(x)))
    _rt(m, "write_double", "read_double", x, "double_nan", lambda r: z3.fpIsNaN(Z(r)))
    _rt(m, "write_float", "read_float", x, "float_nan", lambda r: z3.fpIsNaN(Z(r)))


def _same_bytes(m, a, b):
    if m.sym:
        from vf.symex.models import SBytes
        try:
            return SBytes.lift(a).eq(b)
        except Exception as e:
            if "opaque" in str(e) or "structured" in str(e):
                return z3.BoolVal(False)
            raise
    return z3.BoolVal(bytes(a) == bytes(b))


def h_rt_bytes(m):
    n = m.int("n", 0, (1 << 62), small=5)
    p = m.blob("P", n)
    _rt(m, "write_bytes", "read_bytes", p, "bytes", lambda r: _same_bytes(m, r, p))


def h_rt_utf8(m):
    s = m.ostr("S")
    _rt(m, "write_utf8", "read_utf8", s, "string",
        lambda r: (r == s).e if m.sym else z3.BoolVal(r == s))


def h_rt_fixed(m):
    n = m.int("n", 0, 1 << 40, small=5)
    p = m.blob("P", n)
    out = m.out()
    m.mod(ENC).BinaryEncoder(out).write_fixed(p)
    w = out.getvalue()
    rest = _rest(m)
    stream = m.inp(w + rest)
    r = m.mod(DEC).BinaryDecoder(stream).read_fixed(n)
    m.prove("fixed.value", _same_bytes(m, r, p), "decoded value differs")
    _at_rest(m, "fixed.consumed", stream, rest, _wlen(w))


def _wellformed_varint(m, k):
    """k symbolic bytes forming a well-formed base-128 number of k groups that fits 64 bits"""
    bs = [m.byte(f"b{i}") for i in range(k)]
    for i, b in enumerate(bs):
        m.assume((Z(b) & 0x80) == (bv(0x80) if i < k - 1 else bv(0)))
    if k == 10:
        m.assume(Z(bs[9]) <= 1)
    zz = bv(0)
    for i, b in enumerate(bs):
        zz = zz | ((Z(b) & 0x7F) << (7 * i))
    return bs, zz


def _mk_bytes(m, bs):
    if m.sym:
        from vf.symex.models import SBytes
        return SBytes(list(bs))
    return bytes(bs)


def spec_unzigzag(zz):
    """spec: even zz -> zz/2 ; odd zz -> -(zz+1)/2   (zz unsigned < 2^64, in BV WIDTH)"""
    return z3.If((zz & 1) == 0, z3.LShR(zz, 1), -z3.LShR(zz + 1, 1))


def h_dec_any_varint(m):
    """T5: every well-formed varint of 1..10 groups (minimal or not) decodes to the
    specification's value and the decoder stops after its last byte."""
    k = m.choice("k", 1, 10)
    bs, zz = _wellformed_varint(m, k)
    rest = _rest(m)
    stream = m.inp(_mk_bytes(m, bs) + rest)
    r = m.mod(DEC).BinaryDecoder(stream).read_long()
    m.prove("varint.value", Z(r) == spec_unzigzag(zz), "decoded varint differs from the specification")
    _at_rest(m, "varint.consumed", stream, rest, k)


def _must_raise(m, ob, fn, what):
    try:
        r = fn()
    except Exception as e:
        m.prove(ob, True)
        return type(e).__name__
    m.fail(ob, what)
    return None


def h_dec_prefix_varint(m):
    """T3: a varint cut after j < k bytes (all continuation bits set so far) raises"""
    j = m.choice("j", 0, 9)
    bs = [m.byte(f"b{i}") for i in range(j)]
    for b in bs:
        m.assume((Z(b) & 0x80) == bv(0x80))
    stream = m.inp(_mk_bytes(m, bs))
    for meth in ("read_long",):
        _must_raise(m, "prefix.varint", getattr(m.mod(DEC).BinaryDecoder(stream), meth),
                    "truncated varint returned a value")


def h_dec_prefix_fixedwidth(m):
    for meth, width in (("read_boolean", 1), ("read_float", 4), ("read_double", 8)):
        for j in range(width):
            bs = [m.byte(f"{meth}{j}_{i}") for i in range(j)]
            stream = m.inp(_mk_bytes(m, bs))
            _must_raise(m, f"prefix.{meth}", getattr(m.mod(DEC).BinaryDecoder(stream), meth),
                        f"{meth} on {j} bytes returned a value")


def h_dec_prefix_bytes(m):
    """payload shorter than announced (stream ends) -> raises, for bytes, utf8 and fixed"""
    n = m.int("n", 1, 1 << 62, small=5)
    c = m.int("c", 0, 1 << 62, small=4)
    m.assume(Z(c) < Z(n))
    out = m.out()
    m.mod(ENC).BinaryEncoder(out).write_long(n)
    short = m.blob("P", c)
    for meth in ("read_bytes", "read_utf8"):
        stream = m.inp(out.getvalue() + short)
        _must_raise(m, f"prefix.{meth}", getattr(m.mod(DEC).BinaryDecoder(stream), meth),
                    f"{meth} returned a value for a short payload")
    stream = m.inp(short)
    _must_raise(m, "prefix.read_fixed", lambda: m.mod(DEC).BinaryDecoder(stream).read_fixed(n),
                "read_fixed returned a value for a short payload")


def h_dec_negative_length(m):
    n = m.int("n", -(1 << 63), -1)
    out = m.out()
    m.mod(ENC).BinaryEncoder(out).write_long(n)
    stream = m.inp(out.getvalue() + _rest(m))
    _must_raise(m, "negative_length.read_bytes", m.mod(DEC).BinaryDecoder(stream).read_bytes,
                "read_bytes accepted a negative length")


RT_HARNESSES = [
    (h_rt_long, "rt", ["long.value", "long.consumed"]),
    (h_rt_int, "rt", ["int.value", "int.consumed"]),
    (h_rt_counts, "rt", ["enum_index.value", "union_index.value", "enum_index.consumed", "union_index.consumed"]),
    (h_rt_boolean, "rt", ["boolean.value", "boolean.consumed"]),
    (h_rt_double, "rt", ["double.value", "double.consumed"]),
    (h_rt_float, "rt", ["float.value", "float.consumed"]),
    (h_rt_nan, "rt", ["double_nan.value", "float_nan.value"]),
    (h_rt_bytes, "rt", ["bytes.value", "bytes.consumed"]),
    (h_rt_utf8, "rt", ["string.value", "string.consumed"]),
    (h_rt_fixed, "rt", ["fixed.value", "fixed.consumed"]),
]
DEC_HARNESSES = [
    (h_dec_any_varint, "dec", ["varint.value", "varint.consumed"]),
    (h_dec_negative_length, "dec", ["negative_length.read_bytes"]),
]
PREFIX_HARNESSES = [
    (h_dec_prefix_varint, "dec", ["prefix.varint"]),
    (h_dec_prefix_fixedwidth, "dec", ["prefix.read_boolean", "prefix.read_float", "prefix.read_double"]),
    (h_dec_prefix_bytes, "dec", ["prefix.read_bytes", "prefix.read_utf8", "prefix.read_fixed"]),
]


# ---- the structural reader's skip functions (used when the reader schema drops a field): same contract as the
# ---- read functions - exact consumption on a whole value, an exception on every proper prefix ----------------

RD = "fastavro._read_py"
_NS = {"writer": {}, "reader": {}}


def _skip(m, kind, stream, schema=None):
    mod = m.mod(RD)
    dec = m.mod(DEC).BinaryDecoder(stream)
    return getattr(mod, "skip_" + kind)(dec, schema if schema is not None else kind, dict(_NS))


def _skip_exact(m, kind, wmeth, v, schema=None):
    out = m.out()
    getattr(m.mod(ENC).BinaryEncoder(out), wmeth)(v)
    w = out.getvalue()
    rest = _rest(m)
    stream = m.inp(w + rest)
    _skip(m, kind, stream, schema)
    _at_rest(m, f"skip.{kind}.consumed", stream, rest, _wlen(w))


def h_skip_long(m):
    _skip_exact(m, "long", "write_long", m.int("n", *I64))


def h_skip_int(m):
    _skip_exact(m, "int", "write_int", m.int("n", -(1 << 31), (1 << 31) - 1))


def h_skip_fixedwidth(m):
    _skip_exact(m, "boolean", "write_boolean", m.bool("d"))
    _skip_exact(m, "double", "write_double", m.f64("x"))
    x = m.f64("y")
    m.assume(z3.Not(spec_f32_overflow(Z(x))))
    _skip_exact(m, "float", "write_float", x)


def h_skip_lenprefixed(m):
    n = m.int("n", 0, (1 << 62), small=5)
    _skip_exact(m, "bytes", "write_bytes", m.blob("P", n))
    _skip_exact(m, "utf8", "write_utf8", m.ostr("S"))
    k = m.int("k", 0, 1 << 40, small=5)
    p = m.blob("Q", k)
    rest = _rest(m)
    stream = m.inp(p + rest)
    _skip(m, "fixed", stream, {"type": "fixed", "name": "F", "size": k})
    _at_rest(m, "skip.fixed.consumed", stream, rest, k)


def h_skip_prefix_varint(m):
    j = m.choice("j", 0, 9)
    bs = [m.byte(f"b{i}") for i in range(j)]
    for b in bs:
        m.assume((Z(b) & 0x80) == bv(0x80))
    for kind in ("long", "int"):
        stream = m.inp(_mk_bytes(m, bs))
        _must_raise(m, f"skip.prefix.{kind}", lambda: _skip(m, kind, stream), f"skip_{kind} on a truncated varint returned")


def h_skip_prefix_fixedwidth(m):
    for kind, width in (("boolean", 1), ("float", 4), ("double", 8)):
        for j in range(width):
            bs = [m.byte(f"{kind}{j}_{i}") for i in range(j)]
            stream = m.inp(_mk_bytes(m, bs))
            _must_raise(m, f"skip.prefix.{kind}", lambda: _skip(m, kind, stream), f"skip_{kind} on {j} bytes returned")


def h_skip_prefix_payload(m):
    """payload shorter than announced (the stream ends inside it) -> raises, for bytes, string and fixed"""
    n = m.int("n", 1, 1 << 62, small=5)
    c = m.int("c", 0, 1 << 62, small=4)
    m.assume(Z(c) < Z(n))
    out = m.out()
    m.mod(ENC).BinaryEncoder(out).write_long(n)
    short = m.blob("P", c)
    for kind in ("bytes", "utf8"):
        stream = m.inp(out.getvalue() + short)
        _must_raise(m, f"skip.prefix.{kind}", lambda: _skip(m, kind, stream), f"skip_{kind} returned for a short payload")
    stream = m.inp(short)
    _must_raise(m, "skip.prefix.fixed", lambda: _skip(m, "fixed", stream, {"type": "fixed", "name": "F", "size": n}),
                "skip_fixed returned for a short payload")


SKIP_EXACT_HARNESSES = [
    (h_skip_long, "dec", ["skip.long.consumed"]),
    (h_skip_int, "dec", ["skip.int.consumed"]),
    (h_skip_fixedwidth, "dec", ["skip.boolean.consumed", "skip.double.consumed", "skip.float.consumed"]),
    (h_skip_lenprefixed, "dec", ["skip.bytes.consumed", "skip.utf8.consumed", "skip.fixed.consumed"]),
]
SKIP_PREFIX_HARNESSES = [
    (h_skip_prefix_varint, "dec", ["skip.prefix.long", "skip.prefix.int"]),
    (h_skip_prefix_fixedwidth, "dec", ["skip.prefix.boolean", "skip.prefix.float", "skip.prefix.double"]),
    (h_skip_prefix_payload, "dec", ["skip.prefix.bytes", "skip.prefix.utf8", "skip.prefix.fixed"]),
]


# ---- index guards of the structural reader (E1, every int) ----------------------------------


class _IdxDecoder:
    """decoder stub: the index is symbolic, everything after it is a sentinel"""

    def __init__(self, idx):
        self.idx = idx
        self.after = 0

    def read_index(self):
        return self.idx

    def read_enum(self):
        return self.idx

    def read_long(self):
        self.after += 1
        return 0

    read_int = read_long

    def read_null(self):
        self.after += 1
        return None

    def read_utf8(self, handle_unicode_errors="strict"):
        self.after += 1
        return ""


def h_index_guards(m):
    """read_union / skip_union / read_enum / skip_enum: an index outside [0, n) raises before anything
    else is read; an index inside selects exactly that branch / symbol"""
    n = m.choice("n", 1, 4)
    idx = m.int("idx", -(1 << 63), (1 << 63) - 1)
    mod = m.mod(RD)
    union = (["null", "int", "string", "long"])[:n]
    enum = {"type": "enum", "name": "E", "symbols": ["A", "B", "C", "D"][:n]}
    ns = {"writer": {}, "reader": {}}
    inr = z3.And(Z(idx) >= 0, Z(idx) < n)
    # the same reads under a reader schema (resolution path): a reader enum with a default symbol, a reader union
    renum = dict(enum, symbols=enum["symbols"][:max(1, n - 1)], default=enum["symbols"][0])
    runion = list(union) + ["double"]
    for name, fn in (("read_union", lambda d: mod.read_union(d, union, ns, None, {})),
                     ("skip_union", lambda d: mod.skip_union(d, union, ns)),
                     ("read_enum", lambda d: mod.read_enum(d, enum, ns, None, {})),
                     ("skip_enum", lambda d: mod.skip_enum(d, enum, ns)),
                     ("read_enum_reader_default", lambda d: mod.read_enum(d, enum, ns, renum, {})),
                     ("read_union_reader", lambda d: mod.read_union(d, union, ns, runion, {}))):
        d = _IdxDecoder(idx)
        try:
            r = fn(d)
        except Exception:
            m.prove(f"guard.{name}.raises_only_out_of_range", z3.Not(inr), "in-range index raised")
            m.prove(f"guard.{name}.nothing_read_after_bad_index", d.after == 0, "decoder read on after a bad index")
            continue
        m.prove(f"guard.{name}.accepts_only_in_range", inr, f"{name} accepted an out-of-range index")
        if name == "read_enum":
            sym = enum["symbols"]
            m.prove("guard.read_enum.symbol", z3.Or(*[z3.And(Z(idx) == i, r == sym[i]) for i in range(n)]),
                    "wrong symbol for the index")


GUARD_HARNESSES = [
    (h_index_guards, "idx", [f"guard.{f}.{o}" for f in ("read_union", "skip_union", "read_enum", "skip_enum",
                                                         "read_enum_reader_default", "read_union_reader")
                             for o in ("raises_only_out_of_range", "accepts_only_in_range", "nothing_read_after_bad_index")]
     + ["guard.read_enum.symbol"]),
]


# ---- leaf validators (E1): every int ------------------------------------------------------------

VAL = "fastavro._validation_py"


def h_validate_int_long(m):
    n = m.int("n", -(1 << 70), 1 << 70)
    mod = m.mod(VAL)
    r = mod._validate_int(n)
    m.prove("validate_int", Z(bool(r)) == z3.And(Z(n) >= -(1 << 31), Z(n) <= (1 << 31) - 1),
            "_validate_int differs from the 32-bit range")
    r = mod._validate_long(n)
    m.prove("validate_long", Z(bool(r)) == z3.And(Z(n) >= -(1 << 63), Z(n) <= (1 << 63) - 1),
            "_validate_long differs from the 64-bit range")
    r = mod._validate_float(n)
    m.prove("validate_float_accepts_int", Z(bool(r)) == True, "_validate_float rejects an int")


def h_validate_kinds(m):
    """bool is never an int/long/float; fixed: bytes of exactly the declared size"""
    mod = m.mod(VAL)
    b = m.bool("b")
    for f in ("_validate_int", "_validate_long", "_validate_float"):
        m.prove(f + ".rejects_bool", bool(getattr(mod, f)(b)) is False, f"{f} accepts a bool")
    m.prove("_validate_boolean.accepts_bool", bool(mod._validate_boolean(b)) is True)
    size = m.choice("size", 0, 4)
    n = m.int("n", 0, 6, small=6)
    blob = m.blob("P", n)
    r = mod._validate_fixed(blob, schema={"type": "fixed", "name": "F", "size": size})
    m.prove("validate_fixed", Z(bool(r)) == (Z(n) == size), "_validate_fixed differs from len == size")


VALIDATOR_HARNESSES = [
    (h_validate_int_long, "leaf", ["validate_int", "validate_long", "validate_float_accepts_int"]),
    (h_validate_kinds, "leaf", ["_validate_int.rejects_bool", "_validate_long.rejects_bool", "_validate_float.rejects_bool",
                                "_validate_boolean.accepts_bool", "validate_fixed"]),
]


# ---- container facts (E1) -------------------------------------------------------------------------

RP = "fastavro._read_py"


def h_is_avro(m):
    """is_avro(buffer) is True exactly when the buffer starts with the four magic bytes; never raises"""
    n = m.choice("n", 0, 6)
    bs = [m.byte(f"b{i}") for i in range(n)]
    stream = m.inp(_mk_bytes(m, bs))
    try:
        r = m.mod(RP).is_avro(stream)
    except Exception as e:
        m.fail("is_avro.no_exception", f"is_avro raised {type(e).__name__}")
        return
    magic = [0x4F, 0x62, 0x6A, 0x01]  # 'O' 'b' 'j' 1 : the specification's magic
    want = z3.And(*[Z(bs[i]) == magic[i] for i in range(4)]) if n >= 4 else z3.BoolVal(False)
    got = Z(r) if not isinstance(r, bool) else z3.BoolVal(r)
    m.prove("is_avro.iff_magic", got == want, "is_avro differs from 'starts with Obj\\\\x01'")


def h_crc_framing(m):
    """write_crc32 appends the CRC as 4 bytes big-endian (snappy block framing)"""
    import binascii
    crc = m.int("crc", 0, 0xFFFFFFFF)
    enc = m.mod(ENC)
    saved = enc.crc32
    enc.crc32 = lambda data: crc
    try:
        out = m.out()
        enc.BinaryEncoder(out).write_crc32(b"payload")
    finally:
        enc.crc32 = saved
    b = m.byte_terms(out.getvalue())
    want = [z3.ZeroExt(WIDTH - 8, z3.Extract(8 * (3 - i) + 7, 8 * (3 - i), Z(crc))) for i in range(4)]
    m.prove("crc32.big_endian", z3.And(*[b[i] == want[i] for i in range(4)]) if len(b) == 4 else z3.BoolVal(False),
            "CRC suffix is not 4 bytes big-endian")


def h_constants(m):
    rc = m.mod("fastavro._read_common")
    m.prove("const.magic", rc.MAGIC == b"Obj\x01", "MAGIC")
    m.prove("const.sync_size", rc.SYNC_SIZE == 16, "SYNC_SIZE")
    hs = rc.HEADER_SCHEMA
    ok = (hs["type"] == "record" and [f["name"] for f in hs["fields"]] == ["magic", "meta", "sync"]
          and hs["fields"][0]["type"]["type"] == "fixed" and hs["fields"][0]["type"]["size"] == 4
          and hs["fields"][1]["type"] == {"type": "map", "values": "bytes"}
          and hs["fields"][2]["type"]["type"] == "fixed" and hs["fields"][2]["type"]["size"] == 16)
    m.prove("const.header_schema", ok, "HEADER_SCHEMA is not the specification's header record")


CONTAINER_HARNESSES = [
    (h_is_avro, "e1", ["is_avro.iff_magic"]),
    (h_crc_framing, "e1", ["crc32.big_endian"]),
    (h_constants, "e1", ["const.magic", "const.sync_size", "const.header_schema"]),
]
