"""Layer-1 (E1) obligations on the binary encoder/decoder primitives: the token
contract T1-T5 of DESIGN.md section 3.  Shared by C01, C02, C03, C06."""
import struct
import z3

from vf.e1 import Z
from vf.symex.core import WIDTH, zint, F32, F64, RNE

ENC = "fastavro.io.binary_encoder"
DEC = "fastavro.io.binary_decoder"
I64 = (-(1 << 63), (1 << 63) - 1)


def bv(x):
    return z3.BitVecVal(x, WIDTH)


# ---- the specification, as SMT terms ----------------------------------------

def spec_zigzag(n):
    """Avro spec: zig-zag maps signed to unsigned: 0,-1,1,-2 -> 0,1,2,3"""
    return z3.If(n >= 0, 2 * n, -2 * n - 1)


def spec_varint_len(zz, k):
    """condition: the minimal base-128 length of unsigned zz is k (1..10)"""
    c = []
    if k < 10:
        c.append(z3.ULT(zz, bv(1 << (7 * k))))
    if k > 1:
        c.append(z3.UGE(zz, bv(1 << (7 * (k - 1)))))
    return z3.And(*c) if c else z3.BoolVal(True)


def spec_varint_byte(zz, i, k):
    g = z3.ZeroExt(WIDTH - 7, z3.Extract(7 * i + 6, 7 * i, zz))
    return (g | bv(0x80)) if i < k - 1 else g


def check_varint(m, ob, bts, n):
    """bts (list of z3 byte terms) is exactly the spec varint of signed n"""
    zz = spec_zigzag(Z(n))
    k = len(bts)
    m.prove(ob + ".len", spec_varint_len(zz, k) if 1 <= k <= 10 else z3.BoolVal(False),
            f"varint length {k} is not the minimal length")
    m.prove(ob + ".bytes", z3.And(*[bts[i] == spec_varint_byte(zz, i, k) for i in range(k)]),
            "varint bytes differ from the specification")


def spec_f64_bytes(x):
    """little-endian IEEE-754 binary64 of FP term x (non-NaN)"""
    b = z3.fpToIEEEBV(x)
    return [z3.ZeroExt(WIDTH - 8, z3.Extract(8 * i + 7, 8 * i, b)) for i in range(8)]


def spec_f32_bytes(x):
    b = z3.fpToIEEEBV(z3.fpFPToFP(RNE, x, F32))
    return [z3.ZeroExt(WIDTH - 8, z3.Extract(8 * i + 7, 8 * i, b)) for i in range(4)]


def spec_f32_overflow(x):
    return z3.And(z3.fpIsInf(z3.fpFPToFP(RNE, x, F32)), z3.Not(z3.fpIsInf(x)))


# ---- encoder: T1/T4 -------------------------------------------------------------

def h_enc_long(m):
    n = m.int("n", *I64)
    out = m.out()
    m.mod(ENC).BinaryEncoder(out).write_long(n)
    check_varint(m, "long", m.byte_terms(out.getvalue()), n)


def h_enc_int(m):
    n = m.int("n", -(1 << 31), (1 << 31) - 1)
    out = m.out()
    m.mod(ENC).BinaryEncoder(out).write_int(n)
    check_varint(m, "int", m.byte_terms(out.getvalue()), n)


def _enc_via(m, meth, ob, lo, hi):
    n = m.int("n", lo, hi)
    out = m.out()
    getattr(m.mod(ENC).BinaryEncoder(out), meth)(n)
    check_varint(m, ob, m.byte_terms(out.getvalue()), n)


def h_enc_enum(m):
    _enc_via(m, "write_enum", "enum_index", 0, (1 << 31) - 1)


def h_enc_index(m):
    _enc_via(m, "write_index", "union_index", 0, (1 << 31) - 1)


def h_enc_item_count(m):
    _enc_via(m, "write_item_count", "item_count", 0, (1 << 63) - 1)


def h_enc_ends(m):
    for meth in ("write_array_end", "write_map_end"):
        out = m.out()
        getattr(m.mod(ENC).BinaryEncoder(out), meth)()
        b = m.byte_terms(out.getvalue())
        m.prove(meth, z3.And(len(b) == 1, b[0] == 0) if len(b) == 1 else z3.BoolVal(False),
                "terminator is not the single byte 0")
    for meth in ("write_null", "write_array_start", "write_map_start", "end_item", "flush"):
        out = m.out()
        getattr(m.mod(ENC).BinaryEncoder(out), meth)()
        m.prove(meth + ".empty", len(m.byte_terms(out.getvalue())) == 0, f"{meth} must write nothing")


def h_enc_boolean(m):
    d = m.bool("d")
    out = m.out()
    m.mod(ENC).BinaryEncoder(out).write_boolean(d)
    b = m.byte_terms(out.getvalue())
    m.prove("boolean", z3.And(b[0] == z3.If(Z(d), bv(1), bv(0))) if len(b) == 1 else z3.BoolVal(False),
            "boolean is not one byte 0/1")


def h_enc_double(m):
    x = m.f64("x")
    out = m.out()
    m.mod(ENC).BinaryEncoder(out).write_double(x)
    b = m.byte_terms(out.getvalue())
    sp = spec_f64_bytes(Z(x))
    m.prove("double", z3.And(*[b[i] == sp[i] for i in range(8)]) if len(b) == 8 else z3.BoolVal(False),
            "double is not 8 bytes little-endian IEEE-754")


def h_enc_float(m):
    x = m.f64("x")
    out = m.out()
    try:
        m.mod(ENC).BinaryEncoder(out).write_float(x)
    except OverflowError:
        m.prove("float.overflow_only_when_unrepresentable", spec_f32_overflow(Z(x)),
                "OverflowError for a value that fits IEEE single")
        return
    b = m.byte_terms(out.getvalue())
    sp = spec_f32_bytes(Z(x))
    m.prove("float.no_silent_inf", z3.Not(spec_f32_overflow(Z(x))), "finite double stored as infinity")
    m.prove("float", z3.And(*[b[i] == sp[i] for i in range(4)]) if len(b) == 4 else z3.BoolVal(False),
            "float is not 4 bytes little-endian IEEE-754 single (round to nearest even)")


def h_enc_nan(m):
    """NaN inputs are compared by class only"""
    x = m.f64("x", nan=True)
    m.assume(z3.fpIsNaN(Z(x)))
    for meth, n, sort in (("write_double", 8, F64), ("write_float", 4, F32)):
        out = m.out()
        getattr(m.mod(ENC).BinaryEncoder(out), meth)(x)
        b = m.byte_terms(out.getvalue())
        if len(b) != n:
            m.fail(meth + ".nan", "wrong length")
            continue
        word = z3.Concat(*[z3.Extract(7, 0, t) for t in reversed(b)])
        m.prove(meth + ".nan", z3.fpIsNaN(z3.fpBVToFP(word, sort)), "NaN not stored as a NaN")


def h_enc_bytes(m):
    n = m.int("n", 0, (1 << 62), small=5)
    payload = m.blob("P", n)
    out = m.out()
    m.mod(ENC).BinaryEncoder(out).write_bytes(payload)
    _check_len_prefixed(m, "bytes", out.getvalue(), n, payload)


def _split(m, b, npayload):
    """split written bytes into (prefix byte terms, payload) ; payload compared structurally"""
    from vf.symex.models import SBytes, Blob
    if isinstance(b, SBytes):
        pre = [p for p in b.pieces if not isinstance(p, Blob)]
        rest = SBytes([p for p in b.pieces if isinstance(p, Blob)])
        # prefix bytes must come first
        k = len(pre)
        if any(isinstance(p, Blob) for p in b.pieces[:k]):
            return None, None
        return [zint(p) for p in pre], rest
    b = bytes(b)
    k = len(b) - int(npayload)
    return [zint(x) for x in b[:k]], b[k:]


def _check_len_prefixed(m, ob, written, n, payload):
    pre, rest = _split(m, written, n)
    if pre is None:
        m.fail(ob + ".layout", "payload written before its length prefix")
        return
    check_varint(m, ob + ".prefix", pre, n)
    if m.sym:
        from vf.symex.models import SBytes
        try:
            m.prove(ob + ".payload", SBytes.lift(rest).eq(payload), "payload bytes differ")
        except Exception as e:
            if "opaque" in str(e) or "structured" in str(e):
                # structure differs: e.g. nothing written for a non-empty payload
                m.prove(ob + ".payload", Z(n) == 0, "payload bytes differ")
            else:
                raise
    else:
        m.prove(ob + ".payload", bytes(rest) == bytes(payload), "payload bytes differ")


def h_enc_utf8(m):
    s = m.ostr("S")
    out = m.out()
    m.mod(ENC).BinaryEncoder(out).write_utf8(s)
    blen = s.blen if m.sym else len(s.encode())
    payload = s.encode()
    _check_len_prefixed(m, "string", out.getvalue(), blen, payload)


def h_enc_fixed(m):
    n = m.int("n", 0, (1 << 40), small=5)
    payload = m.blob("P", n)
    out = m.out()
    m.mod(ENC).BinaryEncoder(out).write_fixed(payload)
    w = out.getvalue()
    if m.sym:
        from vf.symex.models import SBytes
        try:
            m.prove("fixed", SBytes.lift(w).eq(payload), "fixed is not written raw")
        except Exception as e:
            if "opaque" in str(e) or "structured" in str(e):
                m.fail("fixed", "fixed is not written raw")
            else:
                raise
    else:
        m.prove("fixed", bytes(w) == bytes(payload), "fixed is not written raw")


def h_enc_utf8_type(m):
    """write_utf8 of a non-string raises TypeError (the documented contract)"""
    out = m.out()
    try:
        m.mod(ENC).BinaryEncoder(out).write_utf8(m.int("n", 0, 10))
    except TypeError:
        m.note("utf8.nonstring_raises")
        m.prove("utf8.nonstring_raises", True)
        return
    except Exception:
        pass
    m.fail("utf8.nonstring_raises", "write_utf8(int) did not raise TypeError")


ENC_HARNESSES = [
    (h_enc_long, "enc", ["long.len", "long.bytes"]),
    (h_enc_int, "enc", ["int.len", "int.bytes"]),
    (h_enc_enum, "enc", ["enum_index.len", "enum_index.bytes"]),
    (h_enc_index, "enc", ["union_index.len", "union_index.bytes"]),
    (h_enc_item_count, "enc", ["item_count.len", "item_count.bytes"]),
    (h_enc_ends, "enc", ["write_array_end", "write_map_end", "write_null.empty"]),
    (h_enc_boolean, "enc", ["boolean"]),
    (h_enc_double, "enc", ["double"]),
    (h_enc_float, "enc", ["float", "float.no_silent_inf", "float.overflow_only_when_unrepresentable"]),
    (h_enc_nan, "enc", ["write_double.nan", "write_float.nan"]),
    (h_enc_bytes, "enc", ["bytes.prefix.len", "bytes.prefix.bytes", "bytes.payload"]),
    (h_enc_utf8, "enc", ["string.prefix.len", "string.prefix.bytes", "string.payload"]),
    (h_enc_fixed, "enc", ["fixed"]),
    (h_enc_utf8_type, "enc", ["utf8.nonstring_raises"]),
]


def run_group(run, runner, group):
    for h, prefix, expect in group:
        runner.check(h, prefix, expect=expect)
