"""C04 - container files are self-describing and round-trip under every codec/block size."""
from vf import ch
from . import l2, l4


def run(run, tier):
    l4.validate_standins(run, tier, run.seed)
    hs = l4.harnesses(tier, run.seed)
    ch.run_harnesses(run, "C04", hs, timeout=150 if tier == "quick" else 500)
    from vf import bounds
    bounds.report(run, ["fastavro._write_py", "fastavro._read_py", "fastavro._read_common", "fastavro._write_common"], 3, "records per file")
    l2.describe(run, tier)
    run.bounds += ["container: schemas " + ", ".join(l4.SCHEMAS if tier == "thorough" else l4.QUICK) +
                   f"; 0..{3 if tier == 'thorough' else 2} records, each with collections <= 1 element, int/long in [-64, 63] "
                   "(one-byte varints, so sizes stay linear), strings/bytes/floats from pools; sync_interval any int >= 1 (symbolic); "
                   "codec in {null, deflate, bzip2, xz} (symbolic); sync marker given or drawn from a stubbed urandom; one user "
                   "metadata entry; output stream exposes write/flush/seekable()->False only, input stream read() only"]
    run.outside += ["compressor internals (zlib, bz2, lzma): opaque invertible stand-ins at token level; every counterexample is "
                    "replayed through the real codecs", "snappy/zstandard/lz4: not importable in this environment",
                    "records larger than the stated leaf bounds (their encoding: C01/C02)"]
    run.stubs |= {"os.urandom (returns the harness-chosen 16 bytes)", "zlib/bz2/lzma as opaque invertible pairs (token level)"}
