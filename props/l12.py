"""C12: parsing is idempotent; raw, parsed and piecewise-parsed schemas behave alike."""
import copy
import json

from vf import rt, family, shape, tok
from vf.oracles import ir as IR, codec
from vf.shape import OutOfDomain
from . import l2, l4
from .l2 import _same

import fastavro._schema_py as S
import fastavro._write_py as W
import fastavro._read_py as R
import fastavro._validation_py as V

rt.fast_concrete_schema_handling()

SCHEMAS = ["pair_field_record", "pair_field_enum", "pair_field_fixed", "pair_array_record", "pair_map_record", "pair_union_record",
           "ref_after_def", "ns_inherit", "ns_dotted", "ns_switch", "chain_rec_union_rec_arr", "chain_map_arr_rec",
           "union_named_mix", "union_two_recs", "rec_mutual", "rec_defaults2", "union_in_array_named", "map_named_twice",
           "map_defines_named", "rec_enum_default", "rec_two_children", "union_recs_by_ref", "err_nested"]
QUICK = ["pair_field_record", "pair_array_record", "pair_union_record", "ref_after_def", "ns_inherit", "ns_switch",
         "union_named_mix", "pair_field_enum", "rec_defaults2", "chain_rec_union_rec_arr", "map_named_twice", "map_defines_named", "rec_two_children", "err_nested"]


def nested_defs(schema):
    """paths of named type definitions below the top level, in definition (pre-)order, with full names"""
    out = []

    def walk(s, ns, path, top):
        if isinstance(s, list):
            for i, b in enumerate(s):
                walk(b, ns, path + (i,), False)
        elif isinstance(s, dict):
            t = s.get("type")
            if t in ("record", "error", "enum", "fixed"):
                cns, full = IR.fullname(s["name"], s.get("namespace"), ns)
                if not top:
                    out.append((path, full))
                for i, f in enumerate(s.get("fields", [])):
                    walk(f["type"], cns, path + ("fields", i, "type"), False)
            elif t == "array":
                walk(s["items"], ns, path + ("items",), False)
            elif t == "map":
                walk(s["values"], ns, path + ("values",), False)
    walk(schema, "", (), True)
    return out


def qualify(s, ns):
    """copy of s with every named definition carrying its full (dotted) name and every reference fully
    qualified, so that it can be parsed on its own"""
    if isinstance(s, list):
        return [qualify(b, ns) for b in s]
    if isinstance(s, str):
        if s in IR.PRIMS or "." in s or not ns:
            return s
        return ns + "." + s
    if isinstance(s, dict):
        t = s.get("type")
        d = dict(s)
        if t in ("record", "error", "enum", "fixed"):
            cns, full = IR.fullname(s["name"], s.get("namespace"), ns)
            d["name"] = full
            d.pop("namespace", None)
            if "fields" in d:
                d["fields"] = [dict(f, type=qualify(f["type"], cns)) for f in s["fields"]]
        elif t == "array":
            d["items"] = qualify(s["items"], ns)
        elif t == "map":
            d["values"] = qualify(s["values"], ns)
        return d
    return s


def piecewise(schema, mask, preparsed=False):
    """(top schema with the selected nested definitions replaced by references, shared named_schemas dict).
    The selected definitions are parsed separately, in definition order, against the shared dictionary.
    preparsed: a piece that can stand on its own is first parsed by itself and the *parsed* piece is then handed
    to parse_schema together with the shared dictionary (parsing is idempotent, so this must make no difference)."""
    q = qualify(schema, "")
    defs = nested_defs(q)
    selected = [(p, full) for i, (p, full) in enumerate(defs) if (mask >> i) & 1]
    named = {}
    top = copy.deepcopy(q)
    # replace deepest paths first so that outer paths stay valid; parse in definition order afterwards
    pieces = {}
    for p, full in sorted(selected, key=lambda x: -len(x[0])):
        cur = top
        for k in p[:-1]:
            cur = cur[k]
        pieces[full] = cur[p[-1]]
        cur[p[-1]] = full
    for p, full in selected:
        # a piece may refer to pieces defined earlier: they are in `named` already when definition order is
        # respected; a piece referring to a later/enclosing type cannot be parsed separately -> not a valid split
        piece = pieces[full]
        if preparsed:
            try:
                piece = S.parse_schema(copy.deepcopy(piece))
            except Exception:
                pass  # refers to another piece: cannot stand alone, stays raw
        S.parse_schema(piece, named)
    parsed_top = S.parse_schema(top, named)
    return parsed_top, named, len(defs)


def evolved(schema):
    """a reader's version of the schema: every record definition gains a defaulted field, every enum a trailing
    symbol and a default; a schema with no such definition is returned unchanged (reader == writer)"""
    def walk(s):
        if isinstance(s, list):
            return [walk(b) for b in s]
        if isinstance(s, dict):
            t = s.get("type")
            d = dict(s)
            if t in ("record", "error"):
                d["fields"] = [dict(f, type=walk(f["type"])) for f in s.get("fields", [])] + [
                    {"name": "added_by_reader", "type": "int", "default": 42}]
            elif t == "enum":
                d["symbols"] = list(s["symbols"]) + ["ZZ_READER_ONLY"]
            elif t == "array":
                d["items"] = walk(s["items"])
            elif t == "map":
                d["values"] = walk(s["values"])
            return d
        return s
    return walk(copy.deepcopy(schema))


_C = {}


def case(name, thorough=False):
    key = (name, thorough)
    if key in _C:
        return _C[key]
    c = dict(l2.case(name, thorough))
    c["ndefs"] = len(nested_defs(qualify(c["schema"], "")))
    forms = {}
    for mask in range(1 << c["ndefs"]):
        try:
            forms[mask] = piecewise(c["schema"], mask)[0]
        except Exception as e:
            forms[mask] = None  # not a valid split (a piece needs a type defined later)
    c["forms"] = forms
    # the same splits with the pieces parsed on their own first (idempotence of parsing)
    pre = {}
    for mask in range(1, 1 << c["ndefs"]):
        if forms.get(mask) is None:
            continue
        try:
            pre[mask] = piecewise(c["schema"], mask, preparsed=True)[0]
        except Exception as e:
            pre[mask] = ("failed", f"{type(e).__name__}: {e}")
    c["forms_pre"] = pre
    # the same three forms of an evolved reader schema (C12 x resolution: a piecewise-parsed reader schema mentions
    # named types by name where the writer's schema defines them inline)
    c["reader"] = evolved(c["schema"])
    rforms = {}
    for mask in range(1 << c["ndefs"]):
        try:
            rforms[mask] = piecewise(c["reader"], mask)[0]
        except Exception:
            rforms[mask] = None
    c["rforms"] = rforms
    c["reader_parsed"] = S.parse_schema(copy.deepcopy(c["reader"]))
    c["cfg"] = c["cfg"].but(K=1, ints="small", strs="pool", floats="pool", bytes="pool", npool=2)
    c["pcf"] = S.to_parsing_canonical_form(copy.deepcopy(c["schema"]))
    _C[key] = c
    return c


def _form(c, mask):
    for m, f in c["forms"].items():
        if mask == m:
            return f
    return None


def ob_idempotent(name):
    c = case(name)
    p = c["parsed"]
    ns = {}
    again = S.parse_schema(p, ns)
    if again != p:
        return False, f"parse_schema(parsed) changed the schema: {again!r} vs {p!r}"
    if isinstance(p, dict) and "__fastavro_parsed" in p and again is not p:
        return False, "parse_schema(parsed) re-parsed a schema carrying the parsed marker"
    irn = c["names"]
    if isinstance(p, dict) and sorted(ns) != sorted(irn):
        return False, f"named-schema dictionary filled with {sorted(ns)!r}, schema defines {sorted(irn)!r}"
    return True, ""


def ob_forms_agree(c, v, mask, pre=False):
    """binary encoding, read-back, validation and canonical form agree for raw / parsed / piecewise"""
    pw = _form(c, mask)
    if pw is None:
        return True, "out of domain"
    if pre:
        alt = None
        for m, f in c["forms_pre"].items():
            if mask == m:
                alt = f
        if alt is None:
            return True, "out of domain"
        if isinstance(alt, tuple) and alt[:1] == ("failed",):
            return False, (f"the split with mask {mask} parses when the pieces are handed over raw but fails when they were "
                           f"parsed on their own first: {alt[1]}")
        pw = alt
    try:
        d = shape.build(c["ir"], c["names"], v, c["cfg"])
    except OutOfDomain:
        return True, "out of domain"
    outs = []
    for label, sch in (("raw", c["schema"]), ("parsed", c["parsed"]), ("piecewise", pw)):
        fo = rt.new_io()
        try:
            W.schemaless_writer(fo, sch, d)
            written = rt.content(fo)
            rt.rewind(fo)
            back = R.schemaless_reader(fo, sch)
            val = V.validate(d, sch, raise_errors=False)
        except Exception as e:
            return False, f"{label} form (mask {mask}): {type(e).__name__}: {e} for {d!r}"
        outs.append((label, written, back, val))
    for label, written, back, val in outs[1:]:
        if written != outs[0][1]:
            return False, f"{label} form (mask {mask}) encodes {d!r} as {written!r}, raw form as {outs[0][1]!r}"
        if not _same(back, outs[0][2]):
            return False, f"{label} form (mask {mask}) reads back {back!r}, raw form {outs[0][2]!r}"
        if val != outs[0][3]:
            return False, f"{label} form (mask {mask}) validates {d!r} as {val}, raw form as {outs[0][3]}"
    return True, ""


def ob_reader_forms(c, v, mask):
    """reading with a reader schema gives the same value whether the reader schema is raw, parsed or piecewise"""
    pw = None
    for m, f in c["rforms"].items():
        if mask == m:
            pw = f
    if pw is None:
        return True, "out of domain"
    try:
        d = shape.build(c["ir"], c["names"], v, c["cfg"])
    except OutOfDomain:
        return True, "out of domain"
    fo = rt.new_io()
    try:
        W.schemaless_writer(fo, c["parsed"], d)
    except Exception as e:
        return False, f"writer raised {type(e).__name__}: {e} for {d!r}"
    outs = []
    for label, rs in (("raw", c["reader"]), ("parsed", c["reader_parsed"]), ("piecewise", pw)):
        rt.rewind(fo)
        try:
            back = R.schemaless_reader(fo, c["schema"], rs)
        except Exception as e:
            back = ("raised", type(e).__name__)
        outs.append((label, back))
    for label, back in outs[1:]:
        if not _same(back, outs[0][1]):
            return False, (f"reader schema in {label} form (mask {mask}) reads {back!r}, in raw form {outs[0][1]!r} "
                           f"(datum {d!r} written under the unevolved schema)")
    if isinstance(outs[0][1], tuple) and outs[0][1][:1] == ("raised",):
        return False, f"reading with the evolved reader schema raised {outs[0][1][1]} for {d!r}"
    return True, ""


def ob_canonical(c, mask):
    pw = _form(c, mask)
    if pw is None:
        return True, "out of domain"
    for label, sch in (("parsed", c["parsed"]), ("piecewise", pw)):
        try:
            got = S.to_parsing_canonical_form(sch)
        except Exception as e:
            return False, f"{label} form (mask {mask}): to_parsing_canonical_form raised {type(e).__name__}: {e}"
        if got != c["pcf"]:
            return False, f"{label} form (mask {mask}) has canonical form {got!r}, raw form {c['pcf']!r}"
    return True, ""


def ob_container(c, v, mask, si):
    """a container file written from the piecewise-parsed schema is readable given nothing but the stream"""
    pw = _form(c, mask)
    if pw is None or si < 1:
        return True, "out of domain"
    try:
        d = shape.build(c["ir"], c["names"], v, c["cfg"])
    except OutOfDomain:
        return True, "out of domain"
    out, store = l4.seq_out()
    try:
        W.writer(out, pw, [d, d], sync_interval=si, sync_marker=b"0123456789abcdef")
    except Exception as e:
        return False, f"writer raised {type(e).__name__}: {e} (mask {mask})"
    try:
        rd = R.reader(l4.seq_in(store))
        got = list(rd)
    except Exception as e:
        return False, f"file written from the piecewise-parsed schema (mask {mask}) is not readable on its own: {type(e).__name__}: {e}"
    want = codec.normalise(c["ir"], d, c["names"], rt.f32)
    if not _same(got, [want, want]):
        return False, f"file from the piecewise-parsed schema (mask {mask}) reads {got!r}, wrote {want!r} twice"
    if S.to_parsing_canonical_form(rd.writer_schema) != c["pcf"]:
        return False, f"writer_schema of the file (mask {mask}) has another canonical form"
    return True, ""


def _key(kind, name, c):
    if not (isinstance(c["schema"], dict) and c["schema"].get("type") in ("record", "error")):
        return lambda a_, k: "piecewise:top-level-is-not-a-record"
    return lambda a_, k: f"{kind}:{name}:piecewise"


def harnesses(tier, seed):
    from vf.ch import Harness
    th = tier == "thorough"
    hs = []
    for name in (SCHEMAS if th else QUICK):
        c = case(name, th)
        a = shape.ann(c["ir"], c["names"], c["cfg"])
        setup = f"C = case({name!r}, {th})"
        sv = shape.samples(c["ir"], c["names"], c["cfg"], seed + 17, n=2)
        full = (1 << c["ndefs"]) - 1
        call = "ob_forms_agree(C, v, mask, pre)"
        hs.append(Harness(f"forms.{name}", "props.l12", f"v: {a}, mask: int, pre: bool", call + "[0]", replay_call=call, setup=setup,
                          what=f"raw/parsed/piecewise forms of {name}", samples=[(sv[0], 0, False), (sv[-1], full, True)],
                          key=_key("forms", name, c)))
        call = "ob_reader_forms(C, v, mask)"
        hs.append(Harness(f"reader_forms.{name}", "props.l12", f"v: {a}, mask: int", call + "[0]", replay_call=call, setup=setup,
                          what=f"raw/parsed/piecewise forms of an evolved reader schema of {name}", samples=[(sv[0], 0), (sv[-1], full)],
                          key=_key("reader_forms", name, c)))
        call = "ob_canonical(C, mask)"
        hs.append(Harness(f"canonical.{name}", "props.l12", "mask: int", call + "[0]", replay_call=call, setup=setup,
                          what=f"canonical form of the forms of {name}", samples=[(0,), (full,)],
                          key=_key("canonical", name, c)))
        call = "ob_container(C, v, mask, si)"
        hs.append(Harness(f"container.{name}", "props.l12", f"v: {a}, mask: int, si: int", call + "[0]", replay_call=call,
                          setup=setup, what=f"container file from piecewise forms of {name}", samples=[(sv[0], 0, 1), (sv[-1], full, 100)],
                          key=_key("container", name, c)))
    return hs
