"""C05 - container layout interoperates both ways with an independent implementation."""
import glob
import io
import os

from vf import ch
from vf.e1 import E1Runner
from vf.oracles import container, ir as IR, codec
from . import l2, l5, prim


def fixtures(run):
    """Java-written fixture files: independent parser and real reader must agree (validation traces)"""
    import json
    import fastavro._read_py as R
    n = 0
    for path in sorted(glob.glob(os.environ.get("VF_REPO", "/repo") + "/tests/avro-files/*.avro")):
        data = open(path, "rb").read()
        try:
            p = container.parse_bytes(data)
        except Exception as e:
            if "codec" in str(e):
                continue  # snappy etc.: not importable here
            run.sample(dict(fixture=os.path.basename(path), independent_parser=f"{type(e).__name__}: {e}"))
            continue
        try:
            names = {}
            node = IR.to_ir(json.loads(p["meta"]["avro.schema"].decode()), "", names)
            if any("lt" in d for d in names.values()):
                continue
            mine = container.records_of(p, node, names, False)
            theirs = list(R.reader(io.BytesIO(data)))
        except Exception as e:
            continue
        n += 1
        if len(mine) != len(theirs) or sum(b["count"] for b in p["blocks"]) != len(theirs):
            run.internal_errors.append(f"fixture {path}: independent parser and reader disagree on the record count")
    run.validated += n
    run.sample(dict(kind="fixture files parsed by the independent parser and the real reader", count=n))


def run(run, tier):
    prim.run_group(run, E1Runner(run), prim.CONTAINER_HARNESSES)
    fixtures(run)
    hs = l5.harnesses(tier, run.seed)
    ch.run_harnesses(run, "C05", hs, timeout=150 if tier == "quick" else 500)
    from vf import bounds
    bounds.report(run, ["fastavro._write_py", "fastavro._read_py"], 3, "records and blocks per file")
    l2.describe(run, tier)
    run.bounds += ["files: <= 2 (quick) / 3 (thorough) records as in C04; every partition into blocks, an optional empty block "
                   "before each block and at the end, the header map in <= 3 chunks of symbolic sizes each in positive or "
                   "negative-count form, avro.codec present or absent, codec symbolic; is_avro: every buffer of 0..6 bytes (E1)"]
    run.outside += ["compressor internals (opaque invertible pairs at token level; real codecs on replay and fixtures)",
                    "snappy framing beyond the CRC suffix (cramjam not importable)"]
